#!/bin/bash
# seedmatrix.sh <scratch-dir>: run every seeded change against the quick check of its own property, on a scratch git
# worktree of /repo and a scratch copy of /verif whose path dependencies point at that worktree (never on /repo itself).
# Only the generated search counts (YV_SKIP_REGRESSION=1: saved regression inputs are skipped).  Writes <scratch-dir>/RESULTS.md
# (copy it to seeded/RESULTS.md and run tools/mkseedtable.py).  Afterwards: git -C /repo worktree remove --force <scratch-dir>/repo; rm -rf <scratch-dir>
set -u
SC=${1:?usage: seedmatrix.sh <scratch-dir (outside /repo and /verif)>}
mkdir -p "$SC"
[ -d "$SC/repo" ] || { git -C /repo worktree add --detach "$SC/repo" HEAD -q && cp /repo/Cargo.lock "$SC/repo/"; }
rsync -a --delete --exclude harness/target --exclude .git /verif/ "$SC/snap/"
mkdir -p "$SC/verif"; rsync -a --exclude harness/target "$SC/snap/" "$SC/verif/"
R="$SC/repo"; V="$SC/verif"
sed "s#/repo#$R#g" "$SC/snap/harness/Cargo.toml" > "$V/harness/Cargo.toml"
sed "s#/repo#$R#g" "$SC/snap/check" > "$V/check"
out="$SC/RESULTS.md"
{ echo "# Seeded changes vs. the quick check of their property"; echo
  echo "Produced by tools/seedmatrix.sh on a scratch checkout of the repository (never /repo itself): each seeded/<id>/patch.diff is applied, ./check <ID> quick (VERIF_SEED=0, YV_SKIP_REGRESSION=1, so only the generated search counts) is run against it, and the patch is reverted."; echo
  echo "| seed | property | exit | cases until failure | first failure line |"; echo "|------|----------|------|---------------------|--------------------|"; } > "$out"
for d in "$SC"/snap/seeded/C*-*; do
  s=$(basename "$d"); id=${s%-*}
  git -C "$R" checkout -q -- .
  git -C "$R" apply "$d/patch.diff" || { echo "| $s | $id | patch-failed | | |" >> "$out"; continue; }
  o=$(cd "$V" && YV_SKIP_REGRESSION=1 VERIF_SEED=0 ./check "$id" quick 2>&1); rc=$?
  git -C "$R" checkout -q -- .
  n=$(echo "$o" | grep -oE 'evaluations=[0-9]+' | tail -1 | cut -d= -f2)
  f=$(echo "$o" | grep -E "^failure:" | head -1 | cut -c10-200 | tr '|' '/' | tr '\n' ' ')
  echo "| $s | $id | $rc | $n | $f |" >> "$out"
  echo "$s -> $rc ($n)"
done
echo ALLDONE
