#!/bin/bash
# seedmatrix.sh: run every seeded change against the quick check of its own property; writes seeded/RESULTS.md
cd /verif
out=seeded/RESULTS.md
echo "# Seeded changes vs. the quick check of their property" > $out
echo "" >> $out
echo "Produced by tools/seedmatrix.sh (applies seeded/<id>/patch.diff to /repo, runs ./check <ID> quick, reverts)." >> $out
echo "" >> $out
echo "| seed | property | exit | first failure line |" >> $out
echo "|------|----------|------|--------------------|" >> $out
for d in seeded/C*-*; do
  s=$(basename $d); id=${s%-*}
  git -C /repo diff --quiet || { echo "/repo dirty"; exit 2; }
  git -C /repo apply /verif/$d/patch.diff || { echo "| $s | $id | patch-failed | |" >> $out; continue; }
  o=$(./check $id quick 2>&1); rc=$?
  git -C /repo checkout -- .
  f=$(echo "$o" | grep -E "^failure:" | head -1 | cut -c10-230 | tr '|' '/' | tr '\n' ' ')
  echo "| $s | $id | $rc | $f |" >> $out
  echo "$s -> $rc"
done
git -C /repo status --short
