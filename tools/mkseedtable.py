#!/usr/bin/env python3
"""Regenerates section 13 of DESIGN.md from seeded/*/meta.json and seeded/RESULTS.md."""
import json, glob, os, re
ROOT=os.path.dirname(os.path.dirname(os.path.abspath(__file__)))
res={}
rp=os.path.join(ROOT,'seeded','RESULTS.md')
if os.path.exists(rp):
    for l in open(rp):
        m=re.match(r'\| (C\d\d-\d+) \| (C\d\d) \| (\S+) \| (\d*) \| (.*) \|$',l.strip())
        if m: res[m.group(1)]=(m.group(3),m.group(5),m.group(4))
EXTRA={
 'C01-4':'first missed (the change is only visible through `TngComplex::connect` with a degree-shifted right operand, which the builder never produces); caught since C01 has the composition route',
 'C08-2':'same source change as C11-1; first caught by C11 only, by C08 as well since the wide two-term complexes were added',
 'C18-4':'same root cause as C04-1 (proposed independently)',
 'C02-5':'same mechanism as C04-3 (proposed independently)',
}
rows=[]
for d in sorted(glob.glob(os.path.join(ROOT,'seeded','C*-*')), key=lambda x:(os.path.basename(x)[:3], int(os.path.basename(x).split('-')[1]))):
    s=os.path.basename(d); m=json.load(open(os.path.join(d,'meta.json')))
    summ=re.sub(r'\s+',' ',m.get('summary','')).replace('|','/')
    needs=re.sub(r'\s+',' ',m.get('needs','')).replace('|','/')
    if len(summ)>260: summ=summ[:257]+'...'
    if len(needs)>260: needs=needs[:257]+'...'
    r=res.get(s,('?','',''))
    verdict={'1':'caught','0':'NOT caught','2':'inconclusive'}.get(r[0],r[0])
    if r[0]=='1' and len(r)>2 and r[2]: verdict+=f" after {r[2]} cases"
    note=EXTRA.get(s,'')
    rows.append(f"| {s} | {summ} | {needs} | {verdict}{(' — '+note) if note else ''} |")
txt='''## 13. Seeded changes: what they need to manifest and which checks catch them

Fresh sub-agents were given only the text of one property and a scratch git
worktree of `/repo` (nothing from `/verif`) and asked for source changes that
break the property while compiling and passing all 610 repository tests, with a
demonstration.  Every change below was confirmed independently with
`tools/seedverify.sh` in a scratch worktree (patch applies, workspace compiles,
610/610 tests pass with it, the demonstration fails with it and passes without
it) before being kept under `seeded/<ID>-<k>/`.  Round 1 gave two changes per
property (`-1`, `-2`), rounds 2 and 3 (higher numbers, `"round"` in `meta.json`)
asked for root causes different from everything proposed before for that
property.  The last column is the outcome of `tools/seedmatrix.sh` with the
final checks: on a scratch git worktree of the repository and a scratch copy of
`/verif` pointing at it (never `/repo` itself), the patch is applied,
`./check <ID> quick` of *its own property* is run with seed 0 and with the saved
regression inputs disabled (so only the generated search counts), and the patch is
reverted; the number is the count of generated cases evaluated when the first
failure was found (full first-failure lines are in `seeded/RESULTS.md`).
Several changes are also caught by checks of other properties (e.g. C09-2 and
C07-2 by C07 and C09, C04-1/C04-2 by C18, C12-3 and C08-1 by C12, C02-4 by C18).

Checks that missed a seeded change when it first arrived, and what was
strengthened (each is described in sec. 10): C04 (resolved crossings listed before
real ones), C05 (constants over larger diagrams; reduced with t != 0; constants
built three times because the manifestation of C05-3 depends on a per-instance
hash order), C02 (the library's own `Braid::closure`), C16 (`map_coeffs` /
`map_gens`), C08 (`reduced()` twice; wide two-term complexes for C08-2; transfer maps in some degrees only for C08-8), C03
(signature of the known finding), C07 (`vectorize_euc` on boundaries, C07-4),
C11 (huge sparse matrices, C11-6; chains of up to 7000 rows with cycle-closing rows, C11-7), C16 (`(index, exponent)` constructor, C16-6), C18 (successive `resolved_at`, C18-5), C19 (K # rho(K), C19-6), C20 (regrouping check and thick knots, C20-6), C14 (`Construct` step, C14-5), C06 (knot
diagrams with a smoothed crossing, C06-6), C12 (tree-shaped decompositions on >= 32
columns, C12-7), C01 (composition route, C01-4).

| seed | change | needs | quick check of its property |
|------|--------|-------|-----------------------------|
'''+"\n".join(rows)+"\n"
p=os.path.join(ROOT,'DESIGN.md')
s=open(p).read()
i=s.find('## 13. Seeded changes: what they need')
if i>=0: s=s[:i].rstrip('\n')+'\n\n'
else: s=s.rstrip('\n')+'\n\n'
open(p,'w').write(s+txt)
print(len(rows),'rows; results for',len(res))
