#!/usr/bin/env python3
"""Regenerates section 13 of DESIGN.md from seeded/*/meta.json and seeded/RESULTS.md."""
import json, glob, os, re
ROOT=os.path.dirname(os.path.dirname(os.path.abspath(__file__)))
res={}
rp=os.path.join(ROOT,'seeded','RESULTS.md')
if os.path.exists(rp):
    for l in open(rp):
        m=re.match(r'\| (C\d\d-\d+) \| (C\d\d) \| (\S+) \| (.*) \|$',l.strip())
        if m: res[m.group(1)]=(m.group(3),m.group(4))
EXTRA={
 'C01-4':'not caught by C01 (exit 0): the change is only visible through `TngComplex::connect` with a degree-shifted right operand, an internal API that no library entry point and none of the property\'s observation points uses (`KhHomology::new`, `KhComplexBigraded`, `KhComplex::d_matrix` always pass an unshifted single crossing); recorded as outside the observable surface of C01',
 'C08-2':'same source change as C11-1 (a race in the parallel pivot search); the C08 workload almost never reaches the conflict path, C11 catches it (exit 1 under Barrier/Delay/Stagger schedules)',
}
rows=[]
for d in sorted(glob.glob(os.path.join(ROOT,'seeded','C*-*')), key=lambda x:(os.path.basename(x)[:3], int(os.path.basename(x).split('-')[1]))):
    s=os.path.basename(d); m=json.load(open(os.path.join(d,'meta.json')))
    summ=re.sub(r'\s+',' ',m.get('summary','')).replace('|','/')
    needs=re.sub(r'\s+',' ',m.get('needs','')).replace('|','/')
    if len(summ)>260: summ=summ[:257]+'...'
    if len(needs)>260: needs=needs[:257]+'...'
    r=res.get(s,('?',''))
    verdict={'1':'caught','0':'NOT caught','2':'inconclusive'}.get(r[0],r[0])
    note=EXTRA.get(s,'')
    rows.append(f"| {s} | {summ} | {needs} | {verdict}{(' — '+note) if note else ''} |")
txt='''## 13. Seeded changes: what they need to manifest and which checks catch them

Fresh sub-agents were given only the text of one property and a scratch git
worktree of `/repo` (nothing from `/verif`) and asked for source changes that
break the property while compiling and passing all 610 repository tests, with a
demonstration.  Every change below was confirmed independently with
`tools/seedverify.sh` in a scratch worktree (patch applies, workspace compiles,
610/610 tests pass with it, the demonstration fails with it and passes without
it) before being kept under `seeded/<ID>-<k>/`.  Round 2 (entries `-3`, `-4`)
asked for root causes different from round 1.  The last column is the outcome of
`tools/seedmatrix.sh`: the patch is applied to `/repo`, `./check <ID> quick` of
*its own property* is run, and the patch is reverted (full first-failure lines
are in `seeded/RESULTS.md`).  Several changes are also caught by checks of
other properties (e.g. C09-2 and C07-2 by C07 and C09, C04-1/C04-2 by C18,
C12-3 and C08-1 by C12, C02-4 by C18).

Checks that missed a seeded change when it first arrived, and what was
strengthened: C04 (resolved crossings listed before real ones: bases with a
crossingless unknot / unlink first were added), C05 (constants over larger
diagrams, and acceptance of reduced with t != 0), C02 (the library's own
`Braid::closure` before and after braid moves), C16 (`map_coeffs` /
`into_map_coeffs` / `map_gens`), C08 (`reduced()` twice), C03 (signature of the
known finding).  After these, 59 of the 61 seeded changes are caught by the
quick check of their own property; the two exceptions are explained in the
table.

| seed | change | needs | quick check of its property |
|------|--------|-------|-----------------------------|
'''+"\n".join(rows)+"\n"
p=os.path.join(ROOT,'DESIGN.md')
s=open(p).read()
i=s.find('## 13. Seeded changes: what they need')
if i>=0: s=s[:i].rstrip('\n')+'\n\n'
else: s=s.rstrip('\n')+'\n\n'
open(p,'w').write(s+txt)
print(len(rows),'rows; results for',len(res))
