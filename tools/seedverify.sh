#!/bin/bash
# seedverify.sh <seed-dir> <worktree>: confirm a seeded change: applies cleanly, compiles, the 610 repository
# tests pass with it, its demonstration fails with it and passes without it.
d=$1; wt=$2
set -u
dest=$(python3 -c "import json;print(json.load(open('$d/meta.json'))['demo_dest'])")
cmd=$(python3 -c "import json;print(json.load(open('$d/meta.json'))['demo_cmd'])")
cd $wt || exit 2
git checkout -q -- . ; git clean -fdq -e target -e Cargo.lock
git apply $d/patch.diff || { echo "RESULT patch-does-not-apply"; exit 1; }
t=$(cargo nextest run --workspace --no-fail-fast --offline 2>&1 | grep -E "^\s+Summary" )
echo "suite with change: $t"
mkdir -p $(dirname $dest); cp $d/demo.rs $dest
eval "$cmd" >/tmp/seedverify.$$.log 2>&1; with=$?
git checkout -q -- .
eval "$cmd" >/tmp/seedverify.$$.log2 2>&1; without=$?
rm -f $dest; git clean -fdq -e target -e Cargo.lock
echo "demo exit with change: $with (want != 0); without: $without (want 0)"
case "$t" in *"610 passed"*) s=ok;; *) s=SUITE-FAILS;; esac
if [ "$s" = ok ] && [ $with -ne 0 ] && [ $without -eq 0 ]; then echo "RESULT confirmed"; else echo "RESULT rejected ($s)"; tail -5 /tmp/seedverify.$$.log2; fi
rm -f /tmp/seedverify.$$.log /tmp/seedverify.$$.log2
