#!/usr/bin/env python3
"""Regenerates /verif/MANIFEST.json from the table below (run after adding a property module)."""
import json, os, sys

ROOT = os.path.dirname(os.path.dirname(os.path.abspath(__file__)))

# id -> (level text, level note, technique)
CHECKS = {
 "C01": ("generated diagrams x (h,t) x reduced x ring x crossing order x thread count; rank and torsion per degree / bidegree compared with an independent cube-of-resolutions complex whose homology is computed by the harness's own modular / p-adic elimination; a fourth route composes two separately built tangle complexes with TngComplex::connect",
         "sampled diagrams up to the oracle's size cap (2^n states); torsion compared at primes <= 31 and at the prime factors the library reports; elimination order sampled through crossing permutations, pool sizes and the engine's own hash order",
         "property-based testing (proptest): differential against a reference model (own cube of resolutions + own linear algebra), shrinking to replay file; thorough tier also runs the quick workload on a build with the code base's debug assertions enabled"),
 "C02": ("generated base diagram + sequence of isotopy moves / relabelings / orientation reversal / mirror; bigraded tables compared (mirror: transformed)",
         "moves are the implemented set (braid-form R2/R3, Markov moves, R1 kinks anywhere, renumbering, reordering); diagrams of one link are those reachable by it",
         "property-based testing (proptest): metamorphic relations over generated move histories"),
 "C03": ("relations between library answers over Z, Q, F2, F3 and between the two routes to a bigraded table, on generated links incl. torus links and split unions",
         "relations only (no external oracle); route B is taken as the torsion reference for the UCT count; known finding F-C03-1 excluded by signature",
         "property-based testing (proptest): differential / metamorphic relations between rings and routes"),
 "C04": ("Euler characteristic of the library's bigraded homology == library Jones routine == harness's own Kauffman state sum, on generated diagrams and after generated move sequences; mirror q -> 1/q",
         "own state sum enumerates 2^n states (n <= 12)",
         "property-based testing (proptest): reference model (own state sum) + metamorphic relations"),
 "C05": ("d.d = 0 with reference products, degree +1, q-homogeneity with deg h = -2, deg t = -4, and specialise-then-homology == direct homology, over Z, Q, F2, F3, Z[H], Z[T], Z[H,T], Q[H], F2[H]",
         "entries are read through the public matrix API and multiplied by the harness; homology comparison by the harness's own elimination",
         "property-based testing (proptest): invariants over generated (link, ring, parameters) + differential on specialisation"),
 "C06": ("canonical cycles are degree-0 cycles, non-torsion for h != 0, Lee/Bar-Natan rank 2^components, ss equal across generated diagrams of a knot and reduced/unreduced, negated by mirror, crossing-change inequality at every crossing; knot diagrams with a crossing smoothed along the orientation are included",
         "diagram independence sampled through move sequences; crossing changes by the harness's own PD rewriting",
         "property-based testing (proptest): invariants + metamorphic relations over generated diagrams, moves and crossing changes"),
 "C07": ("complexes built by construction (planted ranks and torsion, random unimodular changes of basis) over 11 rings; rank/torsion compared with the planted answer and with the harness's own elimination; generators are cycles, boundaries map to 0 mod torsion, coordinates of generators are the standard basis",
         "planted construction and reference products are trusted; sizes <= 8 per degree (quick)",
         "property-based testing (proptest): reference model + certificate checking with reference arithmetic; thorough tier also runs the quick workload on a build with the code base's debug assertions enabled"),
 "C08": ("generated complexes x reduction scripts (pivot type, condition, shallow/deep, per-degree steps, tracked vectors) x thread counts; chain-map equations F d = d' F, d B = B d', F B = I, d'd' = 0, tracked vectors = F v, homology preserved",
         "equations verified with reference products on extracted matrices; thread schedules sampled by pool size and hook-controlled strategies; one case in five is the two-term complex of a large conflict-rich sparse matrix",
         "property-based testing (proptest): certificate (chain-homotopy equations) over generated complexes and reduction scripts; thorough tier also runs the quick workload on a build with the code base's debug assertions enabled"),
 "C09": ("generated matrices (planted and random, all shapes incl. 0 x n, huge entries) over 13 rings x all 16 flag subsets; D = P A Q, P P^-1 = I, Q Q^-1 = I, diagonal chain normalised, agreement with gcds of minors / planted factors",
         "certificates verified with reference products; the certificates imply D is the Smith form",
         "property-based testing (proptest): certificate checking with reference arithmetic; thorough tier adds coverage-guided fuzzing (libFuzzer through cargo-fuzz) of the same case type and oracle, bytes decoded structurally; thorough tier also runs the quick workload on a build with the code base's debug assertions enabled"),
 "C10": ("generated integer / Gaussian / Eisenstein matrices of any shape and rank (HNF) and full row rank (LLL), huge entries; H = P A, P P^-1 = I, echelon / normalised pivots / reduced above; B = P A, P unimodular, size-reduced and Lovasz by exact rational Gram-Schmidt",
         "exact Gram-Schmidt in BigRational in the harness; bounds N(mu) <= 1/2 (Z[i]), 3/4 (Z[w]) implied by any correct coordinate rounding",
         "property-based testing (proptest): certificate checking with reference arithmetic; thorough tier adds coverage-guided fuzzing (libFuzzer through cargo-fuzz) of the same case type and oracle, bytes decoded structurally; thorough tier also runs the quick workload on a build with the code base's debug assertions enabled"),
 "C11": ("generated sparse matrices (incl. a conflict-rich family) x pivot type x condition x 1..16 threads x harness-owned schedule strategies installed through the verif-hooks schedule points; returned pivot set valid: distinct rows/cols, condition, triangular after the permutations, no panic; a huge sparse family (up to 3400 x 8200) reaches the size-dependent code paths",
         "schedules are sampled (Free, Barrier, Priority, Delay), not enumerated; deadlock freedom only as absence of watchdog hits",
         "property-based testing (proptest) with schedule control through hooks: validity predicate on every returned pivot set"),
 "C12": ("generated triangular systems (explicit stored zeros, non-1 unit diagonals), partial-triangular matrices, block matrices, thread pools, repeated calls on one pool; A X = Y, X A = Y, S = D - C A^-1 B, F M B = S, F B = I, block sum, 1 thread == n threads; tree-shaped decompositions on up to 65 columns per block",
         "dense reference model in the harness; schedules sampled by pool size and call sequences",
         "property-based testing (proptest): reference model (dense) + determinism across thread counts; thorough tier also runs the quick workload on a build with the code base's debug assertions enabled"),
 "C13": ("generated operation histories on SpMat / SpVec / Mat / Trans over Z, Q, F3 with stored zeros and zero dimensions, shadowed by a dense Vec<Vec<_>> model compared after every step",
         "only operations valid in the model are generated (the property is about values of valid operations)",
         "property-based testing (proptest): stateful reference model; thorough tier adds coverage-guided fuzzing (libFuzzer through cargo-fuzz) of the same case type and oracle, bytes decoded structurally; thorough tier also runs the quick workload on a build with the code base's debug assertions enabled"),
 "C14": ("generated operation histories (+ - * / neg in all by-value/by-ref/assign forms, comparisons, ring axioms) on 26 scalar types, mirrored in num-bigint / num-rational / textbook Z[w], F_p; canonical form, == and Ord checked after every step; values are also rebuilt through public constructors from non-canonical descriptions",
         "machine types: histories end where the exact result stops being representable; overflow panics of composite machine types are discards",
         "property-based testing (proptest): stateful reference model; thorough tier adds coverage-guided fuzzing (libFuzzer through cargo-fuzz) of the same case type and oracle, bytes decoded structurally"),
 "C15": ("generated operand pairs in 25 Euclidean types with structured shapes (divisor divides, planted common factor, exact ties, associates, zeros), magnitudes to 10^300: division with remainder, exact rounding, gcd/gcdx/lcm laws, units, normalisation",
         "reference Euclidean size and normal forms written from the definitions; at an exact tie either neighbour is accepted",
         "property-based testing (proptest): algebraic laws checked with reference arithmetic; thorough tier adds coverage-guided fuzzing (libFuzzer through cargo-fuzz) of the same case type and oracle, bytes decoded structurally"),
 "C16": ("generated operation histories on Poly/LPoly/Poly2/LPoly2/Poly3/LPoly3/PolyN/LPolyN/HPoly/Lc over 5 coefficient rings, shadowed by a BTreeMap model; no zero terms / zero exponents, queries, eval homomorphism, monomial orders",
         "model = BTreeMap<exponent vector, reference coefficient>",
         "property-based testing (proptest): stateful reference model; thorough tier adds coverage-guided fuzzing (libFuzzer through cargo-fuzz) of the same case type and oracle, bytes decoded structurally"),
 "C17": ("generated constructor + operation histories on BitSeq compared step by step with a Vec<bool> model, lengths biased to the 64-bit boundary; operations exceeding 64 must be rejected",
         "rejection = panic or Err; out-of-range indices are not generated",
         "property-based testing (proptest): stateful reference model; thorough tier adds coverage-guided fuzzing (libFuzzer through cargo-fuzz) of the same case type and oracle, bytes decoded structurally"),
 "C18": ("generated valid PD codes (table, braid closures, kinks, split unions, over-only components, renumbered/reordered) and braid words: components, signs (exists consistent orientation), writhe invariances, resolutions and circle counts, Seifert circles, braid closure counts, against the harness's own half-edge combinatorics; every complete resolution is also reached by successive resolved_at calls in a generated order",
         "own combinatorics on half-edges; orientation of over-only components existentially quantified",
         "property-based testing (proptest): reference model (own PD combinatorics) + metamorphic relations"),
 "C19": ("built-in strongly invertible diagrams, mirrors, reorderings, symmetric kinks x (h,t) over F2 and F2[H] x reduced: library involutive homology == homology of the harness's own cone of 1+tau on its own cube; symmetric build == ordinary Kh; ssi laws",
         "new involutive diagrams by generated equivariant Reidemeister I moves (on-axis kinks, off-axis kink pairs), reordering and mirror of the built-in table; H-torsion exponents over F2[H] compared through truncations F2[H]/(H^k)",
         "property-based testing (proptest): reference model (own mapping cone) + metamorphic relations"),
 "C20": ("generated argument vectors for the ykh binary (built from /repo) run as a child process: parsed table == direct library call with the same ring and parameters; unsupported / malformed input => non-zero exit, message, no table; the printed (i,j) table must also be a regrouping of the ungraded homology",
         "table grammar written from the README and format.rs; 120 s watchdog per invocation",
         "property-based testing (proptest): differential (CLI text vs direct library call) + error contract"),
}

DONE = sys.argv[1:] if len(sys.argv) > 1 else None

def main():
    props = [json.loads(l) for l in open(os.path.join(ROOT, "properties.jsonl"))]
    done_file = os.path.join(ROOT, "tools", "claimed.txt")
    claimed = [l.strip() for l in open(done_file) if l.strip() and not l.startswith("#")]
    m = {
        "version": 1,
        "setup_cmd": "./check setup",
        "hooks": {
            "guard": "cargo feature yui-matrix/verif-hooks (off by default)",
            "enable": "harness/Cargo.toml depends on /repo/yui-matrix with features = [\"verif-hooks\"]; every ./check command runs an incremental cargo build of the harness, which recompiles /repo's current working tree through path dependencies",
            "baseline_off_cmd": "cd /repo && cargo nextest run --workspace --no-fail-fast --offline",
            "source_commits": ["1af215c"],
            "add_only": True,
        },
        "engines": [{
            "name": "yv", "path": "harness", "serves_properties": claimed,
            "kind_free_text": "Rust harness (one cargo package, path dependencies on /repo): sharded proptest TestRunners with seeds derived from VERIF_SEED, reference models / oracles written independently of yui (kit::*), shrinking to JSON replay files, known-findings handling, evidence writer",
        }],
        "checks": [],
        "notes": "Level is 'exploration' for every property: generated-input search against an explicit oracle (see DESIGN.md). Exit 2 = inconclusive (build failure / watchdog), never a violation.",
        "not_applicable": [],
    }
    for p in props:
        pid = p["id"]
        if pid in claimed:
            text, note, tech = CHECKS[pid]
            m["checks"].append({
                "property_id": pid,
                "quick_cmd": f"./check {pid} quick",
                "thorough_cmd": f"./check {pid} thorough",
                "evidence_file": f"evidence/{pid}.json",
                "replay_cmd_template": "./check replay {path}",
                "engine": "yv",
                "level_claimed": {"category": "exploration", "text": text, "design_ref": f"DESIGN.md sec. 4 {pid}"},
                "level_note": note,
                "technique": tech,
            })
        else:
            m["not_applicable"].append({"property_id": pid, "reason": "not claimed in this revision: the check for this property is not implemented yet (design in DESIGN.md sec. 4)"})
    json.dump(m, open(os.path.join(ROOT, "MANIFEST.json"), "w"), indent=1)
    print("claimed:", " ".join(claimed))

main()
