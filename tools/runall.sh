#!/bin/bash
# runall.sh [tier] [seed]: run every claimed check once; prints one line per check
tier=${1:-quick}; seed=${2:-0}
cd "$(dirname "$0")/.."
for id in ${YV_IDS:-$(cat tools/claimed.txt)}; do
  s=$(date +%s)
  out=$(VERIF_SEED=$seed ./check $id $tier 2>&1); rc=$?
  e=$(( $(date +%s) - s ))
  echo "$id exit=$rc ${e}s :: $(echo "$out" | grep -E "^C[0-9]+ (quick|thorough)" | tail -1 | cut -c1-160)"
  [ $rc -ne 0 ] && echo "$out" | grep -E "VIOLATION|failure|INCONCLUSIVE" | cut -c1-400
done
