#!/bin/bash
# seedrun.sh <seed-dir> <ID> [tier]: apply a seeded change to /repo, run ./check <ID>, undo it.
d=$1; id=$2; tier=${3:-quick}
cd /repo && git diff --quiet || { echo "/repo is dirty"; exit 2; }
git -C /repo apply $d/patch.diff || exit 2
cd /verif
out=$(./check $id $tier 2>&1); rc=$?
git -C /repo checkout -- .
echo "$out" | tail -4
echo "seedrun $d $id $tier -> exit $rc"
