#![no_main]
use libfuzzer_sys::fuzz_target;
fuzz_target!(|data: &[u8]| { yv::fuzz::run::<yv::props::c13::C13>(data); });
