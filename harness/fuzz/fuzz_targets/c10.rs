#![no_main]
use libfuzzer_sys::fuzz_target;
fuzz_target!(|data: &[u8]| { yv::fuzz::run::<yv::props::c10::C10>(data); });
