//! Coverage-guided entry: libFuzzer bytes are used as the entropy of the property's own proptest strategy
//! (proptest's pass-through RNG), so the fuzz targets explore exactly the case space of the checks and
//! reuse their oracles.  A failing case is written as a JSON replay file and the process aborts.

use serde::de::{self, DeserializeSeed, EnumAccess, IntoDeserializer, MapAccess, SeqAccess, VariantAccess, Visitor};

use crate::engine::*;

/// Structure-aware decoding of fuzzer bytes into any case type: a serde Deserializer that answers every request of the derived
/// `Deserialize` impl from the byte stream (enum variant = byte mod #variants, sequence length = byte mod 24, integers little-endian,
/// strings over a small alphabet).  Exhausted input yields zeros / empty sequences, so decoding always terminates.
pub struct Bytes<'a> { data: &'a [u8], pos: usize, depth: usize }

#[derive(Debug)]
pub struct DErr(String);
impl std::fmt::Display for DErr { fn fmt(&self, f: &mut std::fmt::Formatter) -> std::fmt::Result { write!(f, "{}", self.0) } }
impl std::error::Error for DErr {}
impl de::Error for DErr { fn custom<T: std::fmt::Display>(m: T) -> Self { DErr(m.to_string()) } }

impl<'a> Bytes<'a> {
    pub fn new(data: &'a [u8]) -> Self { Bytes { data, pos: 0, depth: 0 } }
    fn byte(&mut self) -> u8 { let b = self.data.get(self.pos).cloned().unwrap_or(0); self.pos += 1; b }
    fn exhausted(&self) -> bool { self.pos >= self.data.len() }
    fn uint(&mut self, n: usize) -> u64 { let mut v = 0u64; for i in 0..n { v |= (self.byte() as u64) << (8 * i); } v }
    fn len(&mut self) -> usize { if self.exhausted() || self.depth > 6 { 0 } else { (self.byte() % 24) as usize } }
}

macro_rules! de_int { ($($m:ident $v:ident $t:ty, $n:expr);*) => { $(fn $m<V: Visitor<'de>>(self, v: V) -> Result<V::Value, DErr> { v.$v(self.uint($n) as $t) })* } }

impl<'de, 'a, 'b> de::Deserializer<'de> for &'b mut Bytes<'a> {
    type Error = DErr;
    fn deserialize_any<V: Visitor<'de>>(self, _v: V) -> Result<V::Value, DErr> { Err(DErr("deserialize_any is not supported".into())) }
    fn deserialize_bool<V: Visitor<'de>>(self, v: V) -> Result<V::Value, DErr> { v.visit_bool(self.byte() & 1 == 1) }
    de_int!(deserialize_u8 visit_u8 u8, 1; deserialize_u16 visit_u16 u16, 2; deserialize_u32 visit_u32 u32, 4; deserialize_u64 visit_u64 u64, 8;
            deserialize_i8 visit_i8 i8, 1; deserialize_i16 visit_i16 i16, 2; deserialize_i32 visit_i32 i32, 4; deserialize_i64 visit_i64 i64, 8);
    fn deserialize_f32<V: Visitor<'de>>(self, v: V) -> Result<V::Value, DErr> { v.visit_f32(self.byte() as f32) }
    fn deserialize_f64<V: Visitor<'de>>(self, v: V) -> Result<V::Value, DErr> { v.visit_f64(self.byte() as f64) }
    fn deserialize_char<V: Visitor<'de>>(self, v: V) -> Result<V::Value, DErr> { v.visit_char((b'0' + self.byte() % 10) as char) }
    fn deserialize_str<V: Visitor<'de>>(self, v: V) -> Result<V::Value, DErr> { self.deserialize_string(v) }
    fn deserialize_string<V: Visitor<'de>>(self, v: V) -> Result<V::Value, DErr> {
        // mostly decimal digit strings (big-integer literals), sometimes other characters
        let n = self.len() * 3;
        let digits = self.byte() % 8 != 0;
        let s: String = (0..n).map(|_| { let b = self.byte(); if digits { (b'0' + b % 10) as char } else { b"0123456789_aLnK,[]-HT/ "[(b % 23) as usize] as char } }).collect();
        v.visit_string(s)
    }
    fn deserialize_bytes<V: Visitor<'de>>(self, v: V) -> Result<V::Value, DErr> { let n = self.len(); let b: Vec<u8> = (0..n).map(|_| self.byte()).collect(); v.visit_byte_buf(b) }
    fn deserialize_byte_buf<V: Visitor<'de>>(self, v: V) -> Result<V::Value, DErr> { self.deserialize_bytes(v) }
    fn deserialize_option<V: Visitor<'de>>(self, v: V) -> Result<V::Value, DErr> { if self.byte() % 3 == 0 { v.visit_none() } else { v.visit_some(self) } }
    fn deserialize_unit<V: Visitor<'de>>(self, v: V) -> Result<V::Value, DErr> { v.visit_unit() }
    fn deserialize_unit_struct<V: Visitor<'de>>(self, _n: &'static str, v: V) -> Result<V::Value, DErr> { v.visit_unit() }
    fn deserialize_newtype_struct<V: Visitor<'de>>(self, _n: &'static str, v: V) -> Result<V::Value, DErr> { v.visit_newtype_struct(self) }
    fn deserialize_seq<V: Visitor<'de>>(self, v: V) -> Result<V::Value, DErr> { let n = self.len(); self.depth += 1; let r = v.visit_seq(Seq { d: self, left: n }); r }
    fn deserialize_tuple<V: Visitor<'de>>(self, len: usize, v: V) -> Result<V::Value, DErr> { self.depth += 1; let r = v.visit_seq(Seq { d: self, left: len }); r }
    fn deserialize_tuple_struct<V: Visitor<'de>>(self, _n: &'static str, len: usize, v: V) -> Result<V::Value, DErr> { self.deserialize_tuple(len, v) }
    fn deserialize_map<V: Visitor<'de>>(self, _v: V) -> Result<V::Value, DErr> { Err(DErr("maps are not supported".into())) }
    fn deserialize_struct<V: Visitor<'de>>(self, _n: &'static str, fields: &'static [&'static str], v: V) -> Result<V::Value, DErr> { self.depth += 1; let r = v.visit_map(Fields { d: self, fields, i: 0 }); r }
    fn deserialize_enum<V: Visitor<'de>>(self, _n: &'static str, variants: &'static [&'static str], v: V) -> Result<V::Value, DErr> {
        // deep recursion (Box<Val> etc.) is cut by preferring the first variants once the input is exhausted
        let k = if self.exhausted() || self.depth > 8 { 0 } else { self.byte() as usize % variants.len() };
        self.depth += 1;
        let r = v.visit_enum(En { d: self, variant: variants[k] });
        r
    }
    fn deserialize_identifier<V: Visitor<'de>>(self, _v: V) -> Result<V::Value, DErr> { Err(DErr("identifier".into())) }
    fn deserialize_ignored_any<V: Visitor<'de>>(self, v: V) -> Result<V::Value, DErr> { v.visit_unit() }
}

struct Seq<'b, 'a> { d: &'b mut Bytes<'a>, left: usize }
impl<'de, 'b, 'a> SeqAccess<'de> for Seq<'b, 'a> {
    type Error = DErr;
    fn next_element_seed<T: DeserializeSeed<'de>>(&mut self, seed: T) -> Result<Option<T::Value>, DErr> {
        if self.left == 0 { self.d.depth = self.d.depth.saturating_sub(1); return Ok(None) }
        self.left -= 1;
        let r = seed.deserialize(&mut *self.d).map(Some);
        if self.left == 0 { self.d.depth = self.d.depth.saturating_sub(1); }
        r
    }
}
struct Fields<'b, 'a> { d: &'b mut Bytes<'a>, fields: &'static [&'static str], i: usize }
impl<'de, 'b, 'a> MapAccess<'de> for Fields<'b, 'a> {
    type Error = DErr;
    fn next_key_seed<K: DeserializeSeed<'de>>(&mut self, seed: K) -> Result<Option<K::Value>, DErr> {
        if self.i >= self.fields.len() { self.d.depth = self.d.depth.saturating_sub(1); return Ok(None) }
        let k = self.fields[self.i]; self.i += 1;
        seed.deserialize(IntoDeserializer::<DErr>::into_deserializer(k)).map(Some)
    }
    fn next_value_seed<T: DeserializeSeed<'de>>(&mut self, seed: T) -> Result<T::Value, DErr> { seed.deserialize(&mut *self.d) }
}
struct En<'b, 'a> { d: &'b mut Bytes<'a>, variant: &'static str }
impl<'de, 'b, 'a> EnumAccess<'de> for En<'b, 'a> {
    type Error = DErr; type Variant = Self;
    fn variant_seed<T: DeserializeSeed<'de>>(self, seed: T) -> Result<(T::Value, Self), DErr> { let v = seed.deserialize(IntoDeserializer::<DErr>::into_deserializer(self.variant))?; Ok((v, self)) }
}
impl<'de, 'b, 'a> VariantAccess<'de> for En<'b, 'a> {
    type Error = DErr;
    fn unit_variant(self) -> Result<(), DErr> { self.d.depth = self.d.depth.saturating_sub(1); Ok(()) }
    fn newtype_variant_seed<T: DeserializeSeed<'de>>(self, seed: T) -> Result<T::Value, DErr> { let r = seed.deserialize(&mut *self.d); self.d.depth = self.d.depth.saturating_sub(1); r }
    fn tuple_variant<V: Visitor<'de>>(self, len: usize, v: V) -> Result<V::Value, DErr> { let r = de::Deserializer::deserialize_tuple(&mut *self.d, len, v); self.d.depth = self.d.depth.saturating_sub(1); r }
    fn struct_variant<V: Visitor<'de>>(self, fields: &'static [&'static str], v: V) -> Result<V::Value, DErr> { let r = de::Deserializer::deserialize_struct(&mut *self.d, "", fields, v); self.d.depth = self.d.depth.saturating_sub(1); r }
}

pub fn decode<C: serde::de::DeserializeOwned>(data: &[u8]) -> Option<C> { let mut b = Bytes::new(data); C::deserialize(&mut b).ok() }

/// one fuzz iteration: decode a case, run the property's oracle, abort with a replay file on a failure
pub fn run<P: Prop>(data: &[u8]) {
    static INIT: std::sync::Once = std::sync::Once::new();
    INIT.call_once(install_panic_hook);
    let Some(case) = decode::<P::Case>(data) else { return };
    if !P::fuzz_in_domain(&case) { return }
    let ctx = Ctx { tier: Tier::Quick, seed: 0, replay: false };
    let out = match guard(|| P::run(&case, &ctx)) { Ok(o) => o, Err(m) => Outcome::Fail(format!("uncaught panic: {m}")) };
    if let Outcome::Fail(m) = out {
        let open: Vec<String> = load_findings().into_iter().filter(|f| f.property == P::ID && f.status == "open").map(|f| f.key).collect();
        if P::finding_key(&case, &m).map(|k| open.contains(&k)).unwrap_or(false) { return }
        let dir = verif_root().join("replays").join("found");
        let _ = std::fs::create_dir_all(&dir);
        let body = serde_json::json!({ "property": P::ID, "origin": "libFuzzer", "message": m, "case": case });
        let s = serde_json::to_string_pretty(&body).unwrap();
        use std::hash::{Hash, Hasher};
        let mut h = std::collections::hash_map::DefaultHasher::new(); s.hash(&mut h);
        let path = dir.join(format!("{}-fuzz-{:016x}.json", P::ID, h.finish()));
        let _ = std::fs::write(&path, s);
        println!("failure: {}", m.chars().take(1500).collect::<String>());
        println!("VIOLATION property={} replay={}", P::ID, path.display());
        std::process::abort();
    }
}

#[cfg(test)]
mod tests {
    #[test]
    fn decoding_terminates_and_runs() {
        let mut seed = 7u64;
        for n in [0usize, 1, 8, 9, 16, 33, 64, 200, 1000] { for round in 0..20 {
            let data: Vec<u8> = (0..n).map(|_| { seed = seed.wrapping_mul(6364136223846793005).wrapping_add(1442695040888963407); if round == 0 { 0 } else if round == 1 { 0xff } else { (seed >> 33) as u8 } }).collect();
            super::run::<crate::props::c17::C17>(&data);
            super::run::<crate::props::c14::C14>(&data);
            super::run::<crate::props::c15::C15>(&data);
            super::run::<crate::props::c16::C16>(&data);
        } }
    }
}
