use std::path::PathBuf;
use yv::engine::*;
use yv::props;

fn usage() -> ! {
    eprintln!("usage: yv check <ID> [--tier quick|thorough] [--seed N]\n       yv replay <file>");
    std::process::exit(2)
}

macro_rules! props {
    ($($id:literal => $t:ty),* $(,)?) => {
        fn dispatch_check(id: &str, tier: Tier, seed: u64) -> Report {
            match id { $($id => check::<$t>(tier, seed),)* _ => { eprintln!("unknown property {id}"); Report { exit: 2 } } }
        }
        fn dispatch_replay(id: &str, path: &PathBuf, tier: Tier) -> Report {
            match id { $($id => replay::<$t>(path, tier),)* _ => { eprintln!("unknown property {id}"); Report { exit: 2 } } }
        }
    };
}

props! {
    "C01" => props::c01::C01,
    "C02" => props::c02::C02,
    "C03" => props::c03::C03,
    "C04" => props::c04::C04,
    "C05" => props::c05::C05,
    "C06" => props::c06::C06,
    "C07" => props::c07::C07,
    "C08" => props::c08::C08,
    "C09" => props::c09::C09,
    "C10" => props::c10::C10,
    "C11" => props::c11::C11,
    "C12" => props::c12::C12,
    "C13" => props::c13::C13,
    "C14" => props::c14::C14,
    "C15" => props::c15::C15,
    "C16" => props::c16::C16,
    "C17" => props::c17::C17,
    "C18" => props::c18::C18,
    "C19" => props::c19::C19,
    "C20" => props::c20::C20,
}

fn main() {
    install_panic_hook();
    let args: Vec<String> = std::env::args().collect();
    if args.len() < 3 { usage() }
    let mut tier = match std::env::var("VERIF_TIER").as_deref() { Ok("thorough") => Tier::Thorough, _ => Tier::Quick };
    let mut seed: u64 = std::env::var("VERIF_SEED").ok().and_then(|s| s.parse::<i64>().ok()).map(|x| x as u64).unwrap_or(0);
    let mut i = 3;
    while i < args.len() {
        match args[i].as_str() {
            "--tier" => { i += 1; tier = match args.get(i).map(|s| s.as_str()) { Some("thorough") => Tier::Thorough, Some("quick") => Tier::Quick, _ => usage() } }
            "--seed" => { i += 1; seed = args.get(i).and_then(|s| s.parse::<i64>().ok()).map(|x| x as u64).unwrap_or_else(|| usage()) }
            _ => usage(),
        }
        i += 1;
    }
    // watchdog: inconclusive (exit 2), never a violation
    let limit = std::env::var("YV_WATCHDOG_S").ok().and_then(|s| s.parse::<u64>().ok()).unwrap_or(match tier { Tier::Quick => 3000, Tier::Thorough => 6 * 3600 });
    std::thread::spawn(move || {
        std::thread::sleep(std::time::Duration::from_secs(limit));
        println!("INCONCLUSIVE: watchdog after {limit}s");
        std::process::exit(2);
    });
    let rep = match args[1].as_str() {
        "check" => dispatch_check(&args[2], tier, seed),
        "replay" => {
            let path = PathBuf::from(&args[2]);
            let s = std::fs::read_to_string(&path).unwrap_or_default();
            let v: serde_json::Value = serde_json::from_str(&s).unwrap_or_default();
            let id = v["property"].as_str().map(|s| s.to_string()).unwrap_or_else(|| {
                path.file_name().and_then(|f| f.to_str()).map(|f| f[..3.min(f.len())].to_string()).unwrap_or_default()
            });
            dispatch_replay(&id, &path, tier)
        }
        _ => usage(),
    };
    std::process::exit(rep.exit);
}
