//! Own linear algebra for reference homology (DESIGN.md 3.3): ranks over F_q and
//! p-primary invariant factors by elimination over Z/p^K.  Nothing here calls yui.

use num_bigint::BigInt;
use num_integer::Integer;
use num_traits::{ToPrimitive, Zero};

pub const BIG_PRIMES: [u64; 2] = [(1u64 << 61) - 1, 4611686018427387847]; // 2^61 - 1, 2^62 - 57
pub const SMALL_PRIMES: [u64; 11] = [2, 3, 5, 7, 11, 13, 17, 19, 23, 29, 31];
pub const EXTRA_PRIMES: [u64; 4] = [37, 41, 43, 53];

#[inline] fn mulmod(a: u64, b: u64, q: u64) -> u64 { ((a as u128 * b as u128) % q as u128) as u64 }
#[inline] fn submod(a: u64, b: u64, q: u64) -> u64 { if a >= b { a - b } else { a + q - b } }

fn inv_mod(a: u64, q: u64) -> u64 {
    // extended Euclid in i128; a must be a unit mod q
    let (mut r0, mut r1) = (q as i128, a as i128 % q as i128);
    let (mut t0, mut t1) = (0i128, 1i128);
    while r1 != 0 { let k = r0 / r1; (r0, r1) = (r1, r0 - k * r1); (t0, t1) = (t1, t0 - k * t1); }
    assert!(r0 == 1, "inv_mod: not a unit");
    t0.rem_euclid(q as i128) as u64
}

pub fn reduce(m: &[Vec<BigInt>], q: u64) -> Vec<Vec<u64>> {
    let qb = BigInt::from(q);
    m.iter().map(|r| r.iter().map(|x| if x.is_zero() { 0 } else { x.mod_floor(&qb).to_u64().unwrap() }).collect()).collect()
}

/// rank over the prime field F_q
pub fn rank_mod_u64(mut a: Vec<Vec<u64>>, q: u64) -> usize {
    let m = a.len(); let n = a.first().map(|r| r.len()).unwrap_or(0);
    let mut r = 0;
    for c in 0..n {
        if r >= m { break }
        let Some(p) = (r..m).find(|i| a[*i][c] != 0) else { continue };
        a.swap(p, r);
        let inv = inv_mod(a[r][c], q);
        for j in c..n { a[r][j] = mulmod(a[r][j], inv, q); }
        let prow = a[r].clone();
        for i in r + 1..m {
            let f = a[i][c]; if f == 0 { continue }
            for j in c..n { if prow[j] != 0 { a[i][j] = submod(a[i][j], mulmod(f, prow[j], q), q); } }
        }
        r += 1;
    }
    r
}

pub fn rank_mod(m: &[Vec<BigInt>], q: u64) -> usize { rank_mod_u64(reduce(m, q), q) }

/// rank over Q (max over two 61/62-bit primes; a prime can only lower the rank)
pub fn rank_q(m: &[Vec<BigInt>]) -> usize { BIG_PRIMES.iter().map(|q| rank_mod(m, *q)).max().unwrap() }

pub fn precision(p: u64) -> u32 { let mut k = 0; let mut q: u128 = 1; while q * (p as u128) < (1u128 << 62) { q *= p as u128; k += 1; } k }

/// p-adic valuations (< K) of the invariant factors of the integer matrix m, sorted; `saturated` counts
/// the invariant factors whose valuation is >= K (indistinguishable from 0 at this precision; equals the corank if none)
pub fn local_smith(m: &[Vec<BigInt>], p: u64) -> (Vec<u32>, usize) {
    let kk = precision(p);
    let q: u64 = (p as u128).pow(kk) as u64;
    local_smith_u64(reduce(m, q), p, q)
}

pub fn local_smith_u64(mut a: Vec<Vec<u64>>, p: u64, q: u64) -> (Vec<u32>, usize) {
    let rows = a.len(); let cols = a.first().map(|r| r.len()).unwrap_or(0);
    let val = |mut x: u64| -> u32 { if x == 0 { return u32::MAX } let mut v = 0; while x % p == 0 { x /= p; v += 1; } v };
    let mut vals = vec![];
    let mut t = 0;
    while t < rows.min(cols) {
        // entry of minimal valuation in the remaining block
        let mut best: Option<(u32, usize, usize)> = None;
        'outer: for i in t..rows { for j in t..cols {
            let v = val(a[i][j]);
            if v != u32::MAX && best.map(|b| v < b.0).unwrap_or(true) { best = Some((v, i, j)); if v == 0 { break 'outer } }
        } }
        let Some((v, pi, pj)) = best else { break };
        a.swap(t, pi);
        for row in a.iter_mut() { row.swap(t, pj); }
        let pv = (p as u128).pow(v) as u64;
        let unit = a[t][t] / pv;
        let ui = inv_mod(unit % q, q);
        for j in t..cols { a[t][j] = mulmod(a[t][j], ui, q); } // pivot becomes p^v (mod q)
        let prow = a[t].clone();
        for i in t + 1..rows {
            let x = a[i][t]; if x == 0 { continue }
            let c = x / pv; // exact: every entry is divisible by p^v
            for j in t..cols { if prow[j] != 0 { a[i][j] = submod(a[i][j], mulmod(c, prow[j], q), q); } }
        }
        // clear the pivot row: columns j > t have entries divisible by p^v; column operations do not change other rows' column t (zero now)
        for j in t + 1..cols { a[t][j] = 0; }
        vals.push(v);
        t += 1;
    }
    vals.sort();
    (vals, 0)
}

/// Smith data of an integer matrix restricted to a set of primes: rank over Q and, per prime, the sorted positive valuations
pub struct SmithInfo { pub rank: usize, pub primary: Vec<(u64, Vec<u32>)>, pub ok: bool }

pub fn smith_info(m: &[Vec<BigInt>], primes: &[u64]) -> SmithInfo {
    let rank = rank_q(m);
    let mut ok = true;
    let primary = primes.iter().map(|p| {
        let (vals, _) = local_smith(m, *p);
        // vals.len() = number of invariant factors with valuation < K; must equal the rank, else precision was insufficient
        if vals.len() != rank { ok = false; }
        (*p, vals.into_iter().filter(|v| *v > 0).collect::<Vec<u32>>())
    }).collect();
    SmithInfo { rank, primary, ok }
}

/// valuations of a list of (non-zero) integers at p, positive ones only, sorted
pub fn valuations(ds: &[BigInt], p: u64) -> Vec<u32> {
    let pb = BigInt::from(p);
    let mut out: Vec<u32> = ds.iter().map(|d| { let mut x = d.clone(); let mut v = 0; while !x.is_zero() && x.is_multiple_of(&pb) { x /= &pb; v += 1; } v }).filter(|v| *v > 0).collect();
    out.sort();
    out
}

pub fn prime_factors_small(d: &BigInt, bound: u64) -> Vec<u64> {
    // prime factors of |d| below `bound` plus, if the cofactor is a u64 prime-ish, nothing more (used to extend the prime set)
    let mut x = d.magnitude().clone();
    let mut out = vec![];
    let mut p = 2u64;
    while p < bound && !x.is_zero() && x > num_bigint::BigUint::from(1u32) {
        let pb = num_bigint::BigUint::from(p);
        if (&x % &pb).is_zero() { out.push(p); while (&x % &pb).is_zero() { x /= &pb; } }
        p += if p == 2 { 1 } else { 2 };
    }
    if x > num_bigint::BigUint::from(1u32) { if let Some(r) = x.to_u64() { if r < (1u64 << 31) { out.push(r); } } }
    out
}

// ---------------------------------------------------------------------------
// sparse versions (rows as maps col -> value), used for the cube-of-resolutions differentials

use std::collections::{BTreeMap, BTreeSet};

pub type SpRows = Vec<BTreeMap<usize, BigInt>>;

/// eliminate with unit pivots (entries not divisible by p) over Z/q, q = p^K; returns (#unit pivots, dense remainder)
fn sparse_unit_phase(rows: &SpRows, ncols: usize, p: u64, q: u64) -> (usize, Vec<Vec<u64>>) {
    let qb = BigInt::from(q);
    let mut a: Vec<BTreeMap<usize, u64>> = rows.iter().map(|r| r.iter().filter_map(|(c, v)| { let x = v.mod_floor(&qb).to_u64().unwrap(); if x == 0 { None } else { Some((*c, x)) } }).collect()).collect();
    let m = a.len();
    let mut col_rows: Vec<BTreeSet<usize>> = vec![BTreeSet::new(); ncols];
    for (i, r) in a.iter().enumerate() { for c in r.keys() { col_rows[*c].insert(i); } }
    let mut order: Vec<usize> = (0..m).collect();
    order.sort_by_key(|i| a[*i].len());
    let mut active = vec![true; m];
    let mut pivots = 0usize;
    // repeat passes until no unit entry is left in an active row
    loop {
        let mut progressed = false;
        for &r in &order {
            if !active[r] || a[r].is_empty() { continue }
            // unit entry with the smallest column count
            let Some((&c, &u)) = a[r].iter().filter(|(_, v)| **v % p != 0).min_by_key(|(c, _)| col_rows[**c].len()) else { continue };
            let uinv = inv_mod(u, q);
            let prow: Vec<(usize, u64)> = a[r].iter().map(|(c, v)| (*c, *v)).collect();
            let targets: Vec<usize> = col_rows[c].iter().cloned().filter(|i| *i != r).collect();
            for i in targets {
                let f = mulmod(a[i][&c], uinv, q);
                for (cc, v) in &prow {
                    let sub = mulmod(f, *v, q);
                    let cur = a[i].get(cc).cloned().unwrap_or(0);
                    let nv = submod(cur, sub, q);
                    if nv == 0 { if cur != 0 { a[i].remove(cc); col_rows[*cc].remove(&i); } }
                    else { if cur == 0 { col_rows[*cc].insert(i); } a[i].insert(*cc, nv); }
                }
            }
            for (cc, _) in &prow { col_rows[*cc].remove(&r); }
            a[r].clear(); active[r] = false;
            pivots += 1; progressed = true;
        }
        if !progressed { break }
    }
    let rem_rows: Vec<usize> = (0..m).filter(|i| active[*i] && !a[*i].is_empty()).collect();
    let mut cols: Vec<usize> = rem_rows.iter().flat_map(|i| a[*i].keys().cloned()).collect(); cols.sort(); cols.dedup();
    let cidx: std::collections::HashMap<usize, usize> = cols.iter().enumerate().map(|(i, c)| (*c, i)).collect();
    let dense: Vec<Vec<u64>> = rem_rows.iter().map(|i| { let mut v = vec![0u64; cols.len()]; for (c, x) in &a[*i] { v[cidx[c]] = *x; } v }).collect();
    (pivots, dense)
}

pub fn rank_mod_sparse(rows: &SpRows, ncols: usize, q: u64) -> usize {
    if q == 2 { let sets: Vec<Vec<usize>> = rows.iter().map(|r| r.iter().filter(|(_, v)| v.bit(0)).map(|(c, _)| *c).collect()).collect(); return rank_f2(&sets, ncols) }
    rank_mod_generic(rows, ncols, q)
}

pub fn rank_mod_generic(rows: &SpRows, ncols: usize, q: u64) -> usize {
    let (piv, dense) = sparse_unit_phase(rows, ncols, q, q);
    debug_assert!(dense.is_empty());
    piv + rank_mod_u64(dense, q)
}

pub fn rank_q_sparse(rows: &SpRows, ncols: usize) -> usize { BIG_PRIMES.iter().map(|q| rank_mod_sparse(rows, ncols, *q)).max().unwrap() }

/// sorted p-adic valuations (< K) of the invariant factors
pub fn local_smith_sparse(rows: &SpRows, ncols: usize, p: u64) -> Vec<u32> {
    let kk = precision(p);
    let q: u64 = (p as u128).pow(kk) as u64;
    let (piv, dense) = sparse_unit_phase(rows, ncols, p, q);
    let mut vals = vec![0u32; piv];
    vals.extend(local_smith_u64(dense, p, q).0);
    vals.sort();
    vals
}

#[cfg(test)]
mod tests {
    use super::*;
    use crate::kit::matgen::unimodular;
    use crate::kit::refalg::*;
    use crate::kit::refmat::RM;

    fn to_big(m: &RM) -> Vec<Vec<BigInt>> { m.a.iter().map(|r| r.iter().map(|x| match x { RV::Z(z) => z.clone(), _ => panic!() }).collect()).collect() }

    #[test]
    fn planted_smith_forms_are_recovered() {
        let k = RK::Z;
        let mut seed = 12345u64;
        let mut rnd = || { seed = seed.wrapping_mul(6364136223846793005).wrapping_add(1442695040888963407); (seed >> 33) as u32 };
        for _ in 0..300 {
            let (m, n) = (1 + rnd() as usize % 6, 1 + rnd() as usize % 6);
            let r = m.min(n);
            let choices = [0i64, 1, 1, 2, 3, 4, 6, 8, 9, 12, 27, 5, 7, 1024, 3125];
            let d: Vec<RV> = (0..r).map(|_| RV::Z(bi(choices[rnd() as usize % choices.len()]))).collect();
            let ops1: Vec<(u8, u8, u8, i8)> = (0..12).map(|_| ((rnd() % 3) as u8, rnd() as u8, rnd() as u8, (rnd() % 7) as i8 - 3)).collect();
            let ops2: Vec<(u8, u8, u8, i8)> = (0..12).map(|_| ((rnd() % 3) as u8, rnd() as u8, rnd() as u8, (rnd() % 7) as i8 - 3)).collect();
            let (u, _) = unimodular(k, m, &ops1); let (v, _) = unimodular(k, n, &ops2);
            let a = u.mul(&RM::diag(k, m, n, &d)).mul(&v);
            let big = to_big(&a);
            let ds: Vec<BigInt> = d.iter().filter_map(|x| match x { RV::Z(z) if !z.is_zero() => Some(z.clone()), _ => None }).collect();
            assert_eq!(rank_q(&big), ds.len());
            for p in [2u64, 3, 5, 7] {
                let (vals, _) = local_smith(&big, p);
                assert_eq!(vals.len(), ds.len());
                let sp: SpRows = big.iter().map(|r| r.iter().enumerate().filter(|(_, v)| !v.is_zero()).map(|(c, v)| (c, v.clone())).collect()).collect();
                assert_eq!(local_smith_sparse(&sp, n, p), vals, "sparse vs dense, p = {p}");
                assert_eq!(rank_q_sparse(&sp, n), ds.len());
                let pos: Vec<u32> = vals.into_iter().filter(|v| *v > 0).collect();
                assert_eq!(pos, valuations(&ds, p), "p = {p}, A = {}", a.show());
            }
        }
    }
}

// ---------------------------------------------------------------------------
// GF(2): rows as sets of column indices; dynamic shortest-row / lightest-column pivoting

/// rank over F2 of the matrix whose row i has ones exactly in the columns rows[i] (duplicates cancel in pairs)
pub fn rank_f2(rows: &[Vec<usize>], ncols: usize) -> usize {
    use std::cmp::Reverse;
    use std::collections::BinaryHeap;
    let m = rows.len();
    let mut a: Vec<Vec<u32>> = rows.iter().map(|r| {
        let mut v: Vec<u32> = r.iter().map(|c| *c as u32).collect(); v.sort_unstable();
        let mut out: Vec<u32> = Vec::with_capacity(v.len());
        for c in v { if out.last() == Some(&c) { out.pop(); } else { out.push(c); } }
        out
    }).collect();
    // column -> rows that may contain it (lazily cleaned)
    let mut col_rows: Vec<Vec<u32>> = vec![vec![]; ncols];
    let mut col_cnt: Vec<u32> = vec![0; ncols];
    for (i, r) in a.iter().enumerate() { for c in r { col_rows[*c as usize].push(i as u32); col_cnt[*c as usize] += 1; } }
    let mut heap: BinaryHeap<Reverse<(u32, u32)>> = a.iter().enumerate().filter(|(_, r)| !r.is_empty()).map(|(i, r)| Reverse((r.len() as u32, i as u32))).collect();
    let mut active = vec![true; m];
    let mut rank = 0usize;
    let mut tmp: Vec<u32> = vec![];
    while let Some(Reverse((len, r))) = heap.pop() {
        let r = r as usize;
        if !active[r] || a[r].len() as u32 != len { continue }
        if a[r].is_empty() { active[r] = false; continue }
        let c = *a[r].iter().min_by_key(|c| col_cnt[**c as usize]).unwrap();
        let prow = std::mem::take(&mut a[r]);
        active[r] = false;
        rank += 1;
        for cc in &prow { col_cnt[*cc as usize] -= 1; }
        let targets = std::mem::take(&mut col_rows[c as usize]);
        for i in targets {
            let i = i as usize;
            if !active[i] || a[i].binary_search(&c).is_err() { continue }
            // a[i] ^= prow (symmetric difference of sorted lists)
            tmp.clear();
            let (x, y) = (&a[i], &prow);
            let (mut p, mut q) = (0, 0);
            while p < x.len() && q < y.len() {
                if x[p] < y[q] { tmp.push(x[p]); p += 1; }
                else if x[p] > y[q] { tmp.push(y[q]); col_rows[y[q] as usize].push(i as u32); col_cnt[y[q] as usize] += 1; q += 1; }
                else { col_cnt[x[p] as usize] -= 1; p += 1; q += 1; }
            }
            tmp.extend_from_slice(&x[p..]);
            for &cc in &y[q..] { tmp.push(cc); col_rows[cc as usize].push(i as u32); col_cnt[cc as usize] += 1; }
            std::mem::swap(&mut a[i], &mut tmp);
            if a[i].is_empty() { active[i] = false; } else { heap.push(Reverse((a[i].len() as u32, i as u32))); }
        }
    }
    rank
}

#[cfg(test)]
mod f2_tests {
    use super::*;
    #[test]
    fn rank_f2_agrees_with_the_generic_routine() {
        let mut seed = 777u64;
        let mut rnd = || { seed = seed.wrapping_mul(6364136223846793005).wrapping_add(1442695040888963407); (seed >> 33) as usize };
        for t in 0..400 {
            let (m, n) = (1 + rnd() % 30, 1 + rnd() % 30);
            let dens = 1 + rnd() % 6;
            let rows: Vec<Vec<usize>> = (0..m).map(|_| (0..n).filter(|_| rnd() % 8 < dens).collect()).collect();
            let sp: SpRows = rows.iter().map(|r| r.iter().map(|c| (*c, BigInt::from(1))).collect()).collect();
            assert_eq!(rank_f2(&rows, n), rank_mod_generic(&sp, n, 2), "case {t}");
        }
    }
}
