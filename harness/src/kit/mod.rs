//! shared machinery (DESIGN.md sec. 3)
