//! shared machinery (DESIGN.md sec. 3)
pub mod refalg;
pub mod refmat;
pub mod cube;
pub mod dgen;
pub mod diagram;
pub mod khref;
pub mod local;
pub mod matgen;
pub mod pools;
pub mod sc;
