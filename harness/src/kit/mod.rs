//! shared machinery (DESIGN.md sec. 3)
pub mod refalg;
pub mod refmat;
pub mod local;
pub mod matgen;
pub mod pools;
pub mod sc;
