//! Bridge between yui scalar types and the reference values of `refalg`.
//! Conversions go through public constructors / accessors only.

use num_bigint::BigInt;
use num_rational::BigRational;
use num_traits::{One, ToPrimitive, Zero};
use serde::{Deserialize, Serialize};
use std::fmt::Debug;
use yui::poly::{HPoly, Mono, Poly};
use yui::{EisenInt, GaussInt, QuadInt, Ratio, FF, FF2};

use super::refalg::*;

pub trait Sc: Sized + Clone + Debug + PartialEq + Send + Sync + 'static {
    fn rk() -> RK;
    /// machine type: arithmetic may panic with an overflow
    fn machine() -> bool;
    /// None if `v` is not representable in this type
    fn from_rv(v: &RV) -> Option<Self>;
    fn to_rv(&self) -> RV;
    /// structural canonical-form check of the stored representation
    fn canonical(&self) -> Result<(), String> { Ok(()) }
    /// a safe magnitude bound (bits) for generated operands of machine types
    fn operand_bits() -> u32 { 300 }
    /// the same ring element built through a public constructor from a *non-canonical* description chosen by `twist`
    /// (F_p: the residue shifted by twist * p, negative included; Q: numerator and denominator both multiplied by twist,
    /// so a negative twist gives a negative denominator).  Default: the canonical route.  None if not representable.
    fn from_twisted(v: &RV, _twist: i64) -> Option<Self> { Self::from_rv(v) }
}

pub trait IntSc: Sc {
    fn from_big(x: &BigInt) -> Option<Self>;
    fn to_big(&self) -> BigInt;
}

macro_rules! impl_int {
    ($t:ty, $conv:ident, $bits:expr) => {
        impl IntSc for $t {
            fn from_big(x: &BigInt) -> Option<Self> { x.$conv() }
            fn to_big(&self) -> BigInt { BigInt::from(*self) }
        }
        impl Sc for $t {
            fn rk() -> RK { RK::Z }
            fn machine() -> bool { true }
            fn from_rv(v: &RV) -> Option<Self> { match v { RV::Z(x) => Self::from_big(x), _ => None } }
            fn to_rv(&self) -> RV { RV::Z(self.to_big()) }
            fn operand_bits() -> u32 { $bits }
        }
    };
}
impl_int!(i32, to_i32, 31);
impl_int!(i64, to_i64, 63);
impl_int!(i128, to_i128, 127);

impl IntSc for BigInt {
    fn from_big(x: &BigInt) -> Option<Self> { Some(x.clone()) }
    fn to_big(&self) -> BigInt { self.clone() }
}
impl Sc for BigInt {
    fn rk() -> RK { RK::Z }
    fn machine() -> bool { false }
    fn from_rv(v: &RV) -> Option<Self> { match v { RV::Z(x) => Some(x.clone()), _ => None } }
    fn to_rv(&self) -> RV { RV::Z(self.clone()) }
}

impl<I> Sc for Ratio<I>
where I: IntSc + yui::Integer, for<'x> &'x I: yui::IntOps<I> {
    fn rk() -> RK { RK::Q }
    fn machine() -> bool { I::machine() }
    fn from_rv(v: &RV) -> Option<Self> {
        match v { RV::Q(x) => Some(Ratio::new(I::from_big(x.numer())?, I::from_big(x.denom())?)), _ => None }
    }
    fn from_twisted(v: &RV, twist: i64) -> Option<Self> {
        let t = BigInt::from(if twist == 0 { 1 } else { twist });
        match v { RV::Q(x) => Some(Ratio::new(I::from_big(&(x.numer() * &t))?, I::from_big(&(x.denom() * &t))?)), _ => None }
    }
    fn to_rv(&self) -> RV {
        let (n, d) = (self.numer().to_big(), self.denom().to_big());
        if d.is_zero() { panic!("Ratio with zero denominator: {:?}", self) }
        RV::Q(BigRational::new(n, d))
    }
    fn canonical(&self) -> Result<(), String> {
        use num_integer::Integer;
        let (n, d) = (self.numer().to_big(), self.denom().to_big());
        if d <= BigInt::zero() { return Err(format!("denominator {d} is not positive (numer {n})")) }
        if !n.gcd(&d).is_one() { return Err(format!("{n}/{d} is not in lowest terms")) }
        if n.is_zero() && !d.is_one() { return Err(format!("zero stored as 0/{d}")) }
        Ok(())
    }
    fn operand_bits() -> u32 { I::operand_bits() }
}

impl Sc for FF2 {
    fn rk() -> RK { RK::F(2) }
    fn machine() -> bool { false }
    fn from_rv(v: &RV) -> Option<Self> { match v { RV::F(x) => Some(FF2::from(*x as i64)), _ => None } }
    fn from_twisted(v: &RV, twist: i64) -> Option<Self> { match v { RV::F(x) => Some(FF2::from(*x as i64 + 2 * (twist % 1_000_000))), _ => None } }
    fn to_rv(&self) -> RV { RV::F(if self.is_zero() { 0 } else { 1 }) }
}

impl<const P: i32> Sc for FF<P> {
    fn rk() -> RK { RK::F(P as u64) }
    fn machine() -> bool { false }
    fn from_rv(v: &RV) -> Option<Self> { match v { RV::F(x) => Some(FF::<P>::new(*x as i32)), _ => None } }
    fn from_twisted(v: &RV, twist: i64) -> Option<Self> {
        let RV::F(x) = v else { return None };
        let a = *x as i64 + (P as i64) * (twist % 100_000);
        if a.abs() > i32::MAX as i64 / 2 { return None }
        Some(if twist % 2 == 0 { FF::<P>::new(a as i32) } else { FF::<P>::from(a as i32) })
    }
    fn to_rv(&self) -> RV {
        let r = *self.rep();
        RV::F(r.rem_euclid(P) as u64)
    }
    fn canonical(&self) -> Result<(), String> {
        let r = *self.rep();
        if r < 0 || r >= P { Err(format!("representative {r} outside 0..{P}")) } else { Ok(()) }
    }
}

impl<I, const D: i32> Sc for QuadInt<I, D>
where I: IntSc + yui::Integer, for<'x> &'x I: yui::IntOps<I> {
    fn rk() -> RK { RK::Quad(D) }
    fn machine() -> bool { I::machine() }
    fn from_rv(v: &RV) -> Option<Self> { match v { RV::Quad(a, b) => Some(QuadInt::new(I::from_big(a)?, I::from_big(b)?)), _ => None } }
    fn to_rv(&self) -> RV { RV::Quad(self.left().to_big(), self.right().to_big()) }
    fn operand_bits() -> u32 { I::operand_bits() }
}

impl<R> Sc for Poly<'x', R>
where R: Sc + yui::Ring, for<'a> &'a R: yui::RingOps<R> {
    fn rk() -> RK { match R::rk() { RK::Q => RK::PQ, RK::F(p) => RK::PF(p), k => panic!("no reference polynomial ring over {:?}", k) } }
    fn machine() -> bool { R::machine() }
    fn from_rv(v: &RV) -> Option<Self> {
        let terms: Vec<(usize, R)> = match v {
            RV::PQ(c) => c.iter().enumerate().map(|(i, x)| R::from_rv(&RV::Q(x.clone())).map(|r| (i, r))).collect::<Option<Vec<_>>>()?,
            RV::PF(c) => c.iter().enumerate().map(|(i, x)| R::from_rv(&RV::F(*x)).map(|r| (i, r))).collect::<Option<Vec<_>>>()?,
            _ => return None,
        };
        Some(Poly::from_iter(terms.into_iter().map(|(i, r)| (Poly::<'x', R>::mono(i), r))))
    }
    fn to_rv(&self) -> RV {
        let k = R::rk();
        let mut terms: Vec<(usize, RV)> = self.iter().map(|(x, r)| (x.deg(), r.to_rv())).collect();
        terms.sort_by_key(|t| t.0);
        let n = terms.last().map(|t| t.0 + 1).unwrap_or(0);
        match k {
            RK::Q => { let mut c = vec![BigRational::zero(); n]; for (i, v) in terms { if let RV::Q(q) = v { c[i] += q; } } while c.last().map(|x| x.is_zero()).unwrap_or(false) { c.pop(); } RV::PQ(c) }
            RK::F(p) => { let mut c = vec![0u64; n]; for (i, v) in terms { if let RV::F(q) = v { c[i] = (c[i] + q) % p; } } while c.last().map(|x| *x == 0).unwrap_or(false) { c.pop(); } RV::PF(c) }
            _ => panic!("poly over {:?}", k),
        }
    }
    fn canonical(&self) -> Result<(), String> {
        for (x, r) in self.iter() {
            if yui::Ring::is_unit(r) || true { // (placeholder to keep `r` used uniformly)
                if r.to_rv() == R::rk().zero() { return Err(format!("stored zero coefficient at degree {}", x.deg())) }
                r.canonical()?;
            }
        }
        Ok(())
    }
    fn operand_bits() -> u32 { R::operand_bits() }
}

impl<R> Sc for HPoly<'x', R>
where R: Sc + yui::Ring, for<'a> &'a R: yui::RingOps<R> {
    fn rk() -> RK { match R::rk() { RK::Q => RK::PQ, RK::F(p) => RK::PF(p), k => panic!("no reference polynomial ring over {:?}", k) } }
    fn machine() -> bool { R::machine() }
    fn from_rv(v: &RV) -> Option<Self> {
        match v {
            RV::PQ(c) => { let nz: Vec<usize> = (0..c.len()).filter(|i| !c[*i].is_zero()).collect();
                match nz.len() { 0 => Some(HPoly::new(0, R::from_rv(&RK::Q.zero())?)), 1 => Some(HPoly::new(nz[0], R::from_rv(&RV::Q(c[nz[0]].clone()))?)), _ => None } }
            RV::PF(c) => { let nz: Vec<usize> = (0..c.len()).filter(|i| c[*i] != 0).collect();
                match nz.len() { 0 => Some(HPoly::new(0, R::from_rv(&RV::F(0))?)), 1 => Some(HPoly::new(nz[0], R::from_rv(&RV::F(c[nz[0]]))?)), _ => None } }
            _ => None,
        }
    }
    fn to_rv(&self) -> RV {
        let c = self.coeff().to_rv();
        match c {
            RV::Q(q) => if q.is_zero() { RV::PQ(vec![]) } else { let mut v = vec![BigRational::zero(); self.deg() + 1]; v[self.deg()] = q; RV::PQ(v) },
            RV::F(q) => if q == 0 { RV::PF(vec![]) } else { let mut v = vec![0u64; self.deg() + 1]; v[self.deg()] = q; RV::PF(v) },
            _ => panic!("hpoly coefficient"),
        }
    }
    fn canonical(&self) -> Result<(), String> { self.coeff().canonical() }
    fn operand_bits() -> u32 { R::operand_bits() }
}

// ---------------------------------------------------------------------------
// runtime type tags

#[derive(Clone, Copy, Debug, PartialEq, Eq, Hash, Serialize, Deserialize)]
pub enum Ty {
    I32, I64, I128, Big,
    QI64, QI128, QBig,
    F2, FF2, FF3, FF5, FF7, FF251, FF46337,
    GI64, GI128, GBig, EI64, EI128, EBig,
    Q2I64, Q2Big, Qm2Big, Q5I64, Q5Big, Qm7Big,
    PQI64, PQBig, PF3, PF5, HQI64, HQBig, HF3,
}

pub type Q2<I> = QuadInt<I, 2>;
pub type Qm2<I> = QuadInt<I, -2>;
pub type Q5<I> = QuadInt<I, 5>;
pub type Qm7<I> = QuadInt<I, -7>;

impl Ty {
    pub const RINGS: &'static [Ty] = &[
        Ty::I32, Ty::I64, Ty::I128, Ty::Big, Ty::QI64, Ty::QI128, Ty::QBig, Ty::F2, Ty::FF2, Ty::FF3, Ty::FF5, Ty::FF7, Ty::FF251, Ty::FF46337,
        Ty::GI64, Ty::GI128, Ty::GBig, Ty::EI64, Ty::EI128, Ty::EBig, Ty::Q2I64, Ty::Q2Big, Ty::Qm2Big, Ty::Q5I64, Ty::Q5Big, Ty::Qm7Big];
    pub const EUCLIDEAN: &'static [Ty] = &[
        Ty::I32, Ty::I64, Ty::I128, Ty::Big, Ty::QI64, Ty::QBig, Ty::F2, Ty::FF2, Ty::FF3, Ty::FF5, Ty::FF7, Ty::FF251,
        Ty::GI64, Ty::GI128, Ty::GBig, Ty::EI64, Ty::EI128, Ty::EBig, Ty::PQI64, Ty::PQBig, Ty::PF3, Ty::PF5, Ty::HQI64, Ty::HQBig, Ty::HF3];
    pub fn rk(&self) -> RK {
        match self {
            Ty::I32 | Ty::I64 | Ty::I128 | Ty::Big => RK::Z,
            Ty::QI64 | Ty::QI128 | Ty::QBig => RK::Q,
            Ty::F2 | Ty::FF2 => RK::F(2), Ty::FF3 => RK::F(3), Ty::FF5 => RK::F(5), Ty::FF7 => RK::F(7), Ty::FF251 => RK::F(251), Ty::FF46337 => RK::F(46337),
            Ty::GI64 | Ty::GI128 | Ty::GBig => RK::Quad(-1),
            Ty::EI64 | Ty::EI128 | Ty::EBig => RK::Quad(-3),
            Ty::Q2I64 | Ty::Q2Big => RK::Quad(2), Ty::Qm2Big => RK::Quad(-2), Ty::Q5I64 | Ty::Q5Big => RK::Quad(5), Ty::Qm7Big => RK::Quad(-7),
            Ty::PQI64 | Ty::PQBig | Ty::HQI64 | Ty::HQBig => RK::PQ, Ty::PF3 | Ty::HF3 => RK::PF(3), Ty::PF5 => RK::PF(5),
        }
    }
    /// bits of the underlying machine integer (None = arbitrary precision or finite field)
    pub fn machine_bits(&self) -> Option<u32> {
        match self {
            Ty::I32 => Some(31), Ty::I64 | Ty::QI64 | Ty::GI64 | Ty::EI64 | Ty::Q2I64 | Ty::Q5I64 | Ty::PQI64 | Ty::HQI64 => Some(63),
            Ty::I128 | Ty::QI128 | Ty::GI128 | Ty::EI128 => Some(127),
            _ => None,
        }
    }
}

/// dispatch a generic function `f::<T>(args..)` on the runtime tag (all ring types)
#[macro_export]
macro_rules! dispatch_ring {
    ($ty:expr, $f:ident ( $($a:expr),* )) => {{
        use $crate::kit::sc::*;
        use yui::{Ratio, FF, FF2, GaussInt, EisenInt};
        use num_bigint::BigInt;
        match $ty {
            Ty::I32 => $f::<i32>($($a),*), Ty::I64 => $f::<i64>($($a),*), Ty::I128 => $f::<i128>($($a),*), Ty::Big => $f::<BigInt>($($a),*),
            Ty::QI64 => $f::<Ratio<i64>>($($a),*), Ty::QI128 => $f::<Ratio<i128>>($($a),*), Ty::QBig => $f::<Ratio<BigInt>>($($a),*),
            Ty::F2 => $f::<FF2>($($a),*), Ty::FF2 => $f::<FF<2>>($($a),*), Ty::FF3 => $f::<FF<3>>($($a),*), Ty::FF5 => $f::<FF<5>>($($a),*),
            Ty::FF7 => $f::<FF<7>>($($a),*), Ty::FF251 => $f::<FF<251>>($($a),*), Ty::FF46337 => $f::<FF<46337>>($($a),*),
            Ty::GI64 => $f::<GaussInt<i64>>($($a),*), Ty::GI128 => $f::<GaussInt<i128>>($($a),*), Ty::GBig => $f::<GaussInt<BigInt>>($($a),*),
            Ty::EI64 => $f::<EisenInt<i64>>($($a),*), Ty::EI128 => $f::<EisenInt<i128>>($($a),*), Ty::EBig => $f::<EisenInt<BigInt>>($($a),*),
            Ty::Q2I64 => $f::<Q2<i64>>($($a),*), Ty::Q2Big => $f::<Q2<BigInt>>($($a),*), Ty::Qm2Big => $f::<Qm2<BigInt>>($($a),*),
            Ty::Q5I64 => $f::<Q5<i64>>($($a),*), Ty::Q5Big => $f::<Q5<BigInt>>($($a),*), Ty::Qm7Big => $f::<Qm7<BigInt>>($($a),*),
            Ty::PQI64 => $f::<yui::poly::Poly<'x', Ratio<i64>>>($($a),*), Ty::PQBig => $f::<yui::poly::Poly<'x', Ratio<BigInt>>>($($a),*),
            Ty::PF3 => $f::<yui::poly::Poly<'x', FF<3>>>($($a),*), Ty::PF5 => $f::<yui::poly::Poly<'x', FF<5>>>($($a),*),
            Ty::HQI64 => $f::<yui::poly::HPoly<'x', Ratio<i64>>>($($a),*), Ty::HQBig => $f::<yui::poly::HPoly<'x', Ratio<BigInt>>>($($a),*), Ty::HF3 => $f::<yui::poly::HPoly<'x', FF<3>>>($($a),*),
        }
    }};
}

/// dispatch on the Euclidean types only
#[macro_export]
macro_rules! dispatch_euc {
    ($ty:expr, $f:ident ( $($a:expr),* )) => {{
        use $crate::kit::sc::*;
        use yui::{Ratio, FF, FF2, GaussInt, EisenInt};
        use num_bigint::BigInt;
        match $ty {
            Ty::I32 => $f::<i32>($($a),*), Ty::I64 => $f::<i64>($($a),*), Ty::I128 => $f::<i128>($($a),*), Ty::Big => $f::<BigInt>($($a),*),
            Ty::QI64 => $f::<Ratio<i64>>($($a),*), Ty::QI128 => $f::<Ratio<i128>>($($a),*), Ty::QBig => $f::<Ratio<BigInt>>($($a),*),
            Ty::F2 => $f::<FF2>($($a),*), Ty::FF2 => $f::<FF<2>>($($a),*), Ty::FF3 => $f::<FF<3>>($($a),*), Ty::FF5 => $f::<FF<5>>($($a),*),
            Ty::FF7 => $f::<FF<7>>($($a),*), Ty::FF251 => $f::<FF<251>>($($a),*), Ty::FF46337 => $f::<FF<46337>>($($a),*),
            Ty::GI64 => $f::<GaussInt<i64>>($($a),*), Ty::GI128 => $f::<GaussInt<i128>>($($a),*), Ty::GBig => $f::<GaussInt<BigInt>>($($a),*),
            Ty::EI64 => $f::<EisenInt<i64>>($($a),*), Ty::EI128 => $f::<EisenInt<i128>>($($a),*), Ty::EBig => $f::<EisenInt<BigInt>>($($a),*),
            Ty::PQI64 => $f::<yui::poly::Poly<'x', Ratio<i64>>>($($a),*), Ty::PQBig => $f::<yui::poly::Poly<'x', Ratio<BigInt>>>($($a),*),
            Ty::PF3 => $f::<yui::poly::Poly<'x', FF<3>>>($($a),*), Ty::PF5 => $f::<yui::poly::Poly<'x', FF<5>>>($($a),*),
            Ty::HQI64 => $f::<yui::poly::HPoly<'x', Ratio<i64>>>($($a),*), Ty::HQBig => $f::<yui::poly::HPoly<'x', Ratio<BigInt>>>($($a),*), Ty::HF3 => $f::<yui::poly::HPoly<'x', FF<3>>>($($a),*),
            other => panic!("{:?} is not a Euclidean type", other),
        }
    }};
}

#[allow(unused)]
fn _assert_types() {
    fn is_sc<T: Sc>() {}
    is_sc::<GaussInt<i64>>(); is_sc::<EisenInt<BigInt>>(); is_sc::<Poly<'x', Ratio<i64>>>(); is_sc::<Poly<'x', FF<3>>>();
}

/// Z[H] as a subring of the reference ring Q[x] (integer coefficients only)
impl Sc for Poly<'H', i64> {
    fn rk() -> RK { RK::PQ }
    fn machine() -> bool { true }
    fn from_rv(v: &RV) -> Option<Self> {
        let RV::PQ(c) = v else { return None };
        let mut terms = vec![];
        for (i, x) in c.iter().enumerate() { if !x.is_integer() { return None } terms.push((Poly::<'H', i64>::mono(i), x.numer().to_i64()?)); }
        Some(Poly::from_iter(terms))
    }
    fn to_rv(&self) -> RV {
        let mut terms: Vec<(usize, i64)> = self.iter().map(|(x, r)| (x.deg(), *r)).collect();
        terms.sort();
        let n = terms.last().map(|t| t.0 + 1).unwrap_or(0);
        let mut c = vec![BigRational::zero(); n];
        for (i, v) in terms { c[i] += BigRational::from_integer(BigInt::from(v)); }
        while c.last().map(|x| x.is_zero()).unwrap_or(false) { c.pop(); }
        RV::PQ(c)
    }
    fn canonical(&self) -> Result<(), String> { for (x, r) in self.iter() { if *r == 0 { return Err(format!("stored zero coefficient at degree {}", x.deg())) } } Ok(()) }
    fn operand_bits() -> u32 { 63 }
}
