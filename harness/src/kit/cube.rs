//! Cube-of-resolutions Khovanov complex written from the definition (Frobenius algebra
//! R[X]/(X^2 - hX - t)), independent of yui-khovanov.  Entries of the differential are
//! +-1, +-h, +-t symbolically, so one cube serves every ring and every (h,t).

use num_bigint::BigInt;
use std::collections::{BTreeMap, HashMap};

use super::diagram::Dg;

#[derive(Clone, Copy, Debug, PartialEq, Eq)]
pub enum Sym { One, H, T }

/// generator: (state bits over the real crossings in data order, label bits over the circles of that state: 1 = X)
pub type Gen = (u64, u64);

pub struct Cube {
    pub ncross: usize,
    pub npos: usize,
    pub nneg: usize,
    /// homological degree -> generators with their q-degree
    pub gens: BTreeMap<isize, Vec<(Gen, isize)>>,
    /// homological degree i -> entries (row in degree i+1, col in degree i, sign, symbol)
    pub d: BTreeMap<isize, Vec<(usize, usize, i32, Sym)>>,
    pub reduced: bool,
}

pub const SIZE_CAP: usize = 60_000;

/// number of generators the cube would have (for the size cap)
pub fn cube_size(dg: &Dg, reduced: bool) -> usize {
    let n = dg.ncross();
    if n > 22 { return usize::MAX }
    let mut tot = 0usize;
    for s in 0..(1u64 << n) { let (r, _) = dg.circles(s); let r = if reduced { r.saturating_sub(1) } else { r }; tot = tot.saturating_add(1usize << r.min(40)); if tot > 10 * SIZE_CAP { return tot } }
    tot
}

/// `free_bits` chooses the orientation of components that are never an under strand (does not change n+, n- for
/// split-off components but is passed for completeness); `base`: Some(label) = reduced complex w.r.t. the circle through that label.
pub fn cube(dg: &Dg, base: Option<usize>, free_bits: u32) -> Result<Cube, String> {
    let o = dg.orient(free_bits)?;
    let n = dg.ncross();
    if n > 22 { return Err("too many crossings for the cube oracle".into()) }
    let (npos, nneg) = (o.npos as isize, o.nneg as isize);
    let h0 = -nneg;
    let q0 = npos - 2 * nneg + if base.is_some() { 1 } else { 0 };
    let st: Vec<(usize, BTreeMap<usize, usize>)> = (0..(1u64 << n)).map(|s| dg.circles(s)).collect();
    let mut gens: BTreeMap<isize, Vec<(Gen, isize)>> = BTreeMap::new();
    let mut index: HashMap<Gen, (isize, usize)> = HashMap::new();
    for s in 0..(1u64 << n) {
        let w = s.count_ones() as isize;
        let (r, cm) = &st[s as usize];
        if *r > 40 { return Err("too many circles".into()) }
        let marked = match base { Some(e) => Some(*cm.get(&e).ok_or("base label not in diagram")?), None => None };
        for l in 0..(1u64 << r) {
            if let Some(m) = marked { if (l >> m) & 1 == 0 { continue } }
            let nx = l.count_ones() as isize;
            // q = (#1 - #X) + |s| + n+ - 2n-   (deg 1 = +1, deg X = -1)
            let q = q0 + w + (*r as isize - nx) - nx;
            let v = gens.entry(h0 + w).or_default();
            index.insert((s, l), (h0 + w, v.len()));
            v.push(((s, l), q));
        }
    }
    for i in h0..=h0 + n as isize { gens.entry(i).or_default(); }
    let mut d: BTreeMap<isize, Vec<(usize, usize, i32, Sym)>> = BTreeMap::new();
    for i in h0..=h0 + n as isize { d.entry(i).or_default(); }
    for (&(s, l), &(hd, col)) in index.iter() {
        let (r0, c0) = &st[s as usize];
        for p in 0..n {
            if (s >> p) & 1 == 1 { continue }
            let s1 = s | (1 << p);
            let (r1, c1) = &st[s1 as usize];
            let sign = if (s & ((1u64 << p) - 1)).count_ones() % 2 == 0 { 1 } else { -1 };
            let mut fw: Vec<Vec<usize>> = vec![vec![]; *r0];
            let mut bw: Vec<Vec<usize>> = vec![vec![]; *r1];
            for (lab, a) in c0.iter() { let b = c1[lab]; if !fw[*a].contains(&b) { fw[*a].push(b); } if !bw[b].contains(a) { bw[b].push(*a); } }
            let mut terms: Vec<(u64, i32, Sym)> = vec![];
            if *r1 + 1 == *r0 {
                // merge a1, a2 -> b:  1.1 = 1, 1.X = X.1 = X, X.X = hX + t
                let b = (0..*r1).find(|&b| bw[b].len() == 2).ok_or("merge without a merged circle")?;
                let (a1, a2) = (bw[b][0], bw[b][1]);
                let (x1, x2) = ((l >> a1) & 1 == 1, (l >> a2) & 1 == 1);
                let base_l = |bitb: bool| -> u64 { let mut nl = 0u64; for a in 0..*r0 { if a == a1 || a == a2 { continue } if (l >> a) & 1 == 1 { nl |= 1 << fw[a][0]; } } if bitb { nl |= 1 << b; } nl };
                match (x1, x2) {
                    (false, false) => terms.push((base_l(false), 1, Sym::One)),
                    (true, false) | (false, true) => terms.push((base_l(true), 1, Sym::One)),
                    (true, true) => { terms.push((base_l(true), 1, Sym::H)); terms.push((base_l(false), 1, Sym::T)); }
                }
            } else if *r1 == *r0 + 1 {
                // split a -> b1, b2:  1 -> 1(x)X + X(x)1 - h 1(x)1,  X -> X(x)X + t 1(x)1
                let a = (0..*r0).find(|&a| fw[a].len() == 2).ok_or("split without a split circle")?;
                let (b1, b2) = (fw[a][0], fw[a][1]);
                let x = (l >> a) & 1 == 1;
                let base_l = |y1: bool, y2: bool| -> u64 { let mut nl = 0u64; for a2 in 0..*r0 { if a2 == a { continue } if (l >> a2) & 1 == 1 { nl |= 1 << fw[a2][0]; } } if y1 { nl |= 1 << b1; } if y2 { nl |= 1 << b2; } nl };
                if !x { terms.push((base_l(true, false), 1, Sym::One)); terms.push((base_l(false, true), 1, Sym::One)); terms.push((base_l(false, false), -1, Sym::H)); }
                else { terms.push((base_l(true, true), 1, Sym::One)); terms.push((base_l(false, false), 1, Sym::T)); }
            } else {
                return Err(format!("edge of the cube changes the circle count from {r0} to {r1} (non-planar or invalid diagram)"));
            }
            for (nl, sg, sym) in terms {
                match index.get(&(s1, nl)) {
                    Some(&(_, row)) => d.get_mut(&hd).unwrap().push((row, col, sg * sign, sym)),
                    None => { if base.is_none() { return Err("missing target generator".into()) } } // reduced: the term leaves the subcomplex only when t != 0 (caller keeps t = 0)
                }
            }
        }
    }
    Ok(Cube { ncross: n, npos: o.npos, nneg: o.nneg, gens, d, reduced: base.is_some() })
}

impl Cube {
    pub fn total_gens(&self) -> usize { self.gens.values().map(|v| v.len()).sum() }
    pub fn degrees(&self) -> Vec<isize> { self.gens.keys().cloned().collect() }
    pub fn rank(&self, i: isize) -> usize { self.gens.get(&i).map(|v| v.len()).unwrap_or(0) }

    /// sparse integer matrix of d_i : C^i -> C^{i+1} at the integer point (h, t): rows as maps col -> value
    pub fn matrix(&self, i: isize, h: &BigInt, t: &BigInt) -> Vec<BTreeMap<usize, BigInt>> {
        let m = self.rank(i + 1);
        let mut rows: Vec<BTreeMap<usize, BigInt>> = vec![BTreeMap::new(); m];
        if let Some(es) = self.d.get(&i) { for (r, c, sg, sym) in es {
            let v = match sym { Sym::One => BigInt::from(*sg), Sym::H => h * BigInt::from(*sg), Sym::T => t * BigInt::from(*sg) };
            if v == BigInt::from(0) { continue }
            let e = rows[*r].entry(*c).or_insert_with(|| BigInt::from(0));
            *e += v;
            if *e == BigInt::from(0) { rows[*r].remove(c); }
        } }
        rows
    }

    /// restriction to the generators of q-degree q (only meaningful for h = t = 0): (row subset, col subset) index maps
    pub fn q_slice(&self, i: isize, q: isize) -> (Vec<usize>, Vec<usize>) {
        let cols: Vec<usize> = self.gens.get(&i).map(|v| (0..v.len()).filter(|k| v[*k].1 == q).collect()).unwrap_or_default();
        let rows: Vec<usize> = self.gens.get(&(i + 1)).map(|v| (0..v.len()).filter(|k| v[*k].1 == q).collect()).unwrap_or_default();
        (rows, cols)
    }
    pub fn q_values(&self) -> Vec<isize> { let mut q: Vec<isize> = self.gens.values().flat_map(|v| v.iter().map(|g| g.1)).collect(); q.sort(); q.dedup(); q }
}

pub fn submatrix(rows: &[BTreeMap<usize, BigInt>], rsel: &[usize], csel: &[usize]) -> Vec<BTreeMap<usize, BigInt>> {
    let cmap: HashMap<usize, usize> = csel.iter().enumerate().map(|(i, c)| (*c, i)).collect();
    rsel.iter().map(|r| rows[*r].iter().filter_map(|(c, v)| cmap.get(c).map(|k| (*k, v.clone()))).collect()).collect()
}
