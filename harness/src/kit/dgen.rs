//! Generated diagrams: a source (table pool, braid closure, torus link, corner case) plus a list of modifications.

use proptest::prelude::*;
use serde::{Deserialize, Serialize};

use super::diagram::*;

#[derive(Clone, Debug, Serialize, Deserialize, PartialEq)]
pub enum Src {
    Pool(String),
    Braid(u8, Vec<i8>),
    Torus(u8, u8),
    /// 0 empty, 1 unknot (one resolved crossing), 2 / 3 / 4 / 5 one-crossing kinks, 6 two-component unlink of resolved crossings, 7 Hopf, 8 negative Hopf
    Corner(u8),
    /// explicit PD code
    Pd(Vec<[usize; 4]>),
    /// a table link with the k-th crossing between two different components smoothed along the orientation and kept in the
    /// crossing list as a resolved crossing (a 2-component link becomes a knot diagram with one smoothed crossing)
    Smoothed(String, u8),
}

#[derive(Clone, Debug, Serialize, Deserialize, PartialEq)]
pub enum Mod {
    Kink(u16, u8),
    CircleAcross(u16, bool),
    Union(Src),
    Sum(Src, u16, u16),
    Renumber(u32),
    Reorder(u32),
    ReverseAll,
    MirrorType,
    MirrorPd,
}

#[derive(Clone, Debug, Serialize, Deserialize, PartialEq)]
pub struct DSpec { pub src: Src, pub mods: Vec<Mod> }

pub fn build_src(s: &Src) -> Result<Dg, String> {
    match s {
        Src::Pool(name) => pool_get(name).ok_or_else(|| format!("no pool entry {name}")),
        Src::Braid(n, w) => { let n = (*n as usize).clamp(2, 8); let w: Vec<i32> = w.iter().filter(|x| **x != 0).map(|x| { let k = (x.unsigned_abs() as usize - 1) % (n - 1) + 1; if *x > 0 { k as i32 } else { -(k as i32) } }).collect();
            // make sure every strand is touched: append missing generators
            let mut t = vec![false; n]; for x in &w { let k = x.unsigned_abs() as usize - 1; t[k] = true; t[k + 1] = true; }
            let mut w = w; for s in 0..n { if !t[s] { let g = if s == n - 1 { s } else { s + 1 }; w.push(g as i32); t[g - 1] = true; t[g] = true; } }
            braid_closure(n, &w).ok_or_else(|| "bad braid".to_string()) }
        Src::Torus(p, q) => { let (p, q) = ((*p as usize).clamp(2, 7), (*q as usize).clamp(1, 9)); braid_closure(p, &torus_word(p, q)).ok_or_else(|| "bad torus".to_string()) }
        Src::Pd(pd) => Ok(Dg::from_pd(pd)),
        Src::Smoothed(name, k) => {
            let d = pool_get(name).ok_or_else(|| format!("no pool entry {name}"))?;
            let o = d.orient(0)?;
            let strand_of = |i: usize, under: bool| o.strands.iter().position(|s| s.pass.iter().any(|p| p.0 == i && ((p.1 % 2 == 0) == under)));
            let inter: Vec<usize> = (0..d.n()).filter(|i| strand_of(*i, true) != strand_of(*i, false)).collect();
            if inter.is_empty() { return Err("no crossing between different components".into()) }
            d.smooth_oriented(inter[*k as usize % inter.len()])
        }
        Src::Corner(k) => Ok(match k % 9 {
            0 => Dg::new(vec![]),
            1 => Dg::new(vec![(CT::H, [0, 1, 1, 0])]),
            2 => Dg::from_pd(&[[0, 0, 1, 1]]),
            3 => Dg::from_pd(&[[0, 1, 1, 0]]),
            4 => Dg::from_pd(&[[1, 1, 2, 2]]),
            5 => Dg::from_pd(&[[3, 7, 7, 3]]),
            6 => Dg::new(vec![(CT::H, [0, 1, 1, 0]), (CT::V, [2, 3, 3, 2])]),
            7 => Dg::from_pd(&[[4, 1, 3, 2], [2, 3, 1, 4]]),
            _ => Dg::from_pd(&[[1, 4, 2, 3], [3, 2, 4, 1]]),
        }),
    }
}

fn pick_label(d: &Dg, i: u16) -> Option<usize> { let ls: Vec<usize> = d.labels().into_iter().collect(); if ls.is_empty() { None } else { Some(ls[(i as usize * ls.len()) >> 16]) } }

pub fn build(spec: &DSpec) -> Result<Dg, String> {
    let mut d = build_src(&spec.src)?;
    for m in &spec.mods {
        // label-based modifications are applied to pure PD codes only: a diagram that mixes resolved (V/H) and real crossings on one
        // component is not a PD code (the library orients a component from index 0 of whichever crossing comes first)
        let mixed = d.x.iter().any(|c| matches!(c.0, CT::V | CT::H));
        if mixed && matches!(m, Mod::Kink(..) | Mod::CircleAcross(..) | Mod::Sum(..) | Mod::MirrorPd | Mod::ReverseAll) { continue }
        d = match m {
            Mod::Kink(i, kind) => match pick_label(&d, *i) { Some(l) => d.kink(l, *kind)?, None => d },
            Mod::CircleAcross(i, over) => match pick_label(&d, *i) { Some(l) => d.circle_across(l, *over)?, None => d },
            Mod::Union(s) => d.split_union(&build_src(s)?),
            Mod::Sum(s, i, j) => { let o = build_src(s)?; match (pick_label(&d, *i), pick_label(&o, *j)) { (Some(a), Some(b)) => d.connected_sum(a, &o, b)?, _ => d.split_union(&o) } }
            Mod::Renumber(s) => d.renumber_seeded(*s as u64),
            Mod::Reorder(s) => d.reorder_seeded(*s as u64),
            Mod::ReverseAll => d.reverse_all(),
            Mod::MirrorType => d.mirror_type(),
            Mod::MirrorPd => d.mirror_pd()?,
        };
    }
    Ok(d)
}

pub fn src_strategy(maxc: usize, with_corner: bool) -> BoxedStrategy<Src> {
    let names = pool_names(maxc);
    let maxw = maxc.min(12);
    let braid = (2u8..=5, prop::collection::vec(prop_oneof![(1i8..=4), (-4i8..=-1)], 1..=maxw)).prop_map(|(n, w)| Src::Braid(n, w));
    let torus = prop_oneof![Just((2u8, 2u8)), Just((2, 3)), Just((2, 4)), Just((2, 5)), Just((3, 2)), Just((3, 3)), Just((3, 4)), Just((4, 3)), Just((2, 7)), Just((3, 5)), Just((4, 4))]
        .prop_filter_map("torus too large", move |(p, q)| if (p as usize - 1) * q as usize <= maxc { Some(Src::Torus(p, q)) } else { None });
    let corner = (0u8..9).prop_map(Src::Corner);
    if names.is_empty() {
        prop_oneof![4 => braid, 1 => torus, 1 => corner].boxed()
    } else if with_corner {
        prop_oneof![6 => prop::sample::select(names).prop_map(Src::Pool), 4 => braid, 1 => torus, 1 => corner].boxed()
    } else {
        prop_oneof![6 => prop::sample::select(names).prop_map(Src::Pool), 4 => braid, 1 => torus].boxed()
    }
}

pub fn mod_strategy(small_maxc: usize) -> BoxedStrategy<Mod> {
    prop_oneof![
        3 => (any::<u16>(), 0u8..4).prop_map(|(i, k)| Mod::Kink(i, k)),
        2 => (any::<u16>(), any::<bool>()).prop_map(|(i, o)| Mod::CircleAcross(i, o)),
        2 => src_strategy(small_maxc, true).prop_map(Mod::Union),
        2 => (src_strategy(small_maxc, false), any::<u16>(), any::<u16>()).prop_map(|(s, i, j)| Mod::Sum(s, i, j)),
        2 => any::<u32>().prop_map(Mod::Renumber),
        2 => any::<u32>().prop_map(Mod::Reorder),
        1 => Just(Mod::ReverseAll),
        1 => Just(Mod::MirrorType),
        1 => Just(Mod::MirrorPd),
    ].boxed()
}

pub fn dspec_strategy(maxc: usize, maxmods: usize) -> BoxedStrategy<DSpec> {
    (src_strategy(maxc, true), prop::collection::vec(mod_strategy(4), 0..=maxmods)).prop_map(|(src, mods)| DSpec { src, mods }).boxed()
}

// ---------------------------------------------------------------------- isotopy move histories (C02, C04, C06)

/// PD-level moves that keep the oriented link type
#[derive(Clone, Debug, Serialize, Deserialize, PartialEq)]
pub enum PMove { Kink(u16, u8), Renumber(u32), Reorder(u32), ReverseAll }

#[derive(Clone, Debug, Serialize, Deserialize, PartialEq)]
pub struct IsoSpec { pub base: DSpec, pub bmoves: Vec<BMove>, pub pmoves: Vec<PMove> }

fn braid_word_of(s: &Src) -> Option<(usize, Vec<i32>)> {
    match s {
        Src::Braid(n, w) => { let n = (*n as usize).clamp(2, 8); let mut w: Vec<i32> = w.iter().filter(|x| **x != 0).map(|x| { let k = (x.unsigned_abs() as usize - 1) % (n - 1) + 1; if *x > 0 { k as i32 } else { -(k as i32) } }).collect();
            let mut t = vec![false; n]; for x in &w { let k = x.unsigned_abs() as usize - 1; t[k] = true; t[k + 1] = true; }
            for s in 0..n { if !t[s] { let g = if s == n - 1 { s } else { s + 1 }; w.push(g as i32); t[g - 1] = true; t[g] = true; } }
            Some((n, w)) }
        Src::Torus(p, q) => { let (p, q) = ((*p as usize).clamp(2, 7), (*q as usize).clamp(1, 9)); Some((p, torus_word(p, q))) }
        _ => None,
    }
}

pub struct IsoBuilt { pub base: Dg, pub moved: Dg, pub braid_moves: usize, pub r23_moves: usize, pub kinks: usize,
    /// for closed-braid bases: (strands, word) before and after the braid moves
    pub words: Option<((usize, Vec<i32>), (usize, Vec<i32>))> }

pub fn build_iso(spec: &IsoSpec) -> Result<IsoBuilt, String> {
    let base = build(&spec.base)?;
    let mut moved = base.clone();
    let (mut nb, mut r23) = (0, 0);
    let mut words = None;
    if spec.base.mods.is_empty() {
        if let Some((n, w)) = braid_word_of(&spec.base.src) {
            let w0 = (n, w.clone());
            let (mut n, mut w) = (n, w);
            for m in &spec.bmoves { if let Some((n2, w2)) = apply_bmove(n, &w, m) { n = n2; w = w2; nb += 1; if matches!(m, BMove::BraidRel(_) | BMove::InsertPair(..) | BMove::RemovePair(_) | BMove::Stabilize(_)) { r23 += 1; } } }
            if nb > 0 { moved = braid_closure(n, &w).ok_or("bad braid after moves")?; }
            words = Some((w0, (n, w)));
        }
    }
    let mut kinks = 0;
    let pure = moved.x.iter().all(|c| c.0 == CT::X);
    for m in &spec.pmoves {
        moved = match m {
            PMove::Kink(i, k) => if pure { match pick_label(&moved, *i) { Some(l) => { kinks += 1; moved.kink(l, *k)? } None => moved } } else { moved },
            PMove::Renumber(s) => moved.renumber_seeded(*s as u64),
            PMove::Reorder(s) => moved.reorder_seeded(*s as u64),
            PMove::ReverseAll => if pure { moved.reverse_all() } else { moved },
        };
    }
    Ok(IsoBuilt { base, moved, braid_moves: nb, r23_moves: r23, kinks, words })
}

pub fn iso_strategy(maxc: usize, maxmoves: usize) -> BoxedStrategy<IsoSpec> {
    let bm = prop_oneof![
        2 => any::<u16>().prop_map(BMove::FarCommute), 3 => any::<u16>().prop_map(BMove::BraidRel),
        3 => (any::<u16>(), any::<i8>()).prop_map(|(p, g)| BMove::InsertPair(p, g)), 1 => any::<u16>().prop_map(BMove::RemovePair),
        2 => any::<i8>().prop_map(BMove::Conjugate), 2 => any::<bool>().prop_map(BMove::Stabilize)];
    let pm = prop_oneof![3 => (any::<u16>(), 0u8..4).prop_map(|(i, k)| PMove::Kink(i, k)), 2 => any::<u32>().prop_map(PMove::Renumber), 2 => any::<u32>().prop_map(PMove::Reorder), 1 => Just(PMove::ReverseAll)];
    // bases: half of them plain braid closures (so that braid moves apply), the rest arbitrary specs
    let braid_base = src_strategy(maxc, false).prop_filter_map("braid source", |s| if matches!(s, Src::Braid(..) | Src::Torus(..)) { Some(DSpec { src: s, mods: vec![] }) } else { None });
    // resolved crossings (a crossingless unknot / unlink) listed before the real crossings of a split component
    let resolved_first = ((0u8..2), src_strategy(maxc, false)).prop_map(|(k, s)| DSpec { src: Src::Corner(if k == 0 { 1 } else { 6 }), mods: vec![Mod::Union(s)] });
    let base = prop_oneof![5 => braid_base, 5 => dspec_strategy(maxc, 1), 1 => resolved_first];
    (base, prop::collection::vec(bm, 0..=maxmoves), prop::collection::vec(pm, 0..=maxmoves.min(3))).prop_map(|(base, bmoves, pmoves)| IsoSpec { base, bmoves, pmoves }).boxed()
}
