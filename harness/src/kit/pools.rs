//! cached rayon thread pools by size
use std::collections::HashMap;
use std::sync::{Arc, Mutex, OnceLock};

static POOLS: OnceLock<Mutex<HashMap<usize, Arc<rayon::ThreadPool>>>> = OnceLock::new();

pub fn pool(n: usize) -> Arc<rayon::ThreadPool> {
    let m = POOLS.get_or_init(|| Mutex::new(HashMap::new()));
    let mut g = m.lock().unwrap();
    g.entry(n).or_insert_with(|| Arc::new(rayon::ThreadPoolBuilder::new().num_threads(n).stack_size(32 << 20).build().unwrap())).clone()
}

/// run `f` inside a pool with `n` worker threads (all rayon parallelism of the library then uses this pool)
pub fn with_threads<T: Send>(n: usize, f: impl FnOnce() -> T + Send) -> T { pool(n.max(1)).install(f) }
