//! Reference dense matrices over reference scalars (schoolbook operations), and
//! conversions from / to the library's containers through their public API.

use super::refalg::*;
use super::sc::Sc;
use yui_matrix::dense::Mat;
use yui_matrix::sparse::{SpMat, SpVec};
use yui_matrix::MatTrait;

#[derive(Clone, Debug, PartialEq, Eq)]
pub struct RM { pub k: RK, pub m: usize, pub n: usize, pub a: Vec<Vec<RV>> }

impl RM {
    pub fn zero(k: RK, m: usize, n: usize) -> RM { RM { k, m, n, a: vec![vec![k.zero(); n]; m] } }
    pub fn id(k: RK, n: usize) -> RM { let mut r = RM::zero(k, n, n); for i in 0..n { r.a[i][i] = k.one(); } r }
    pub fn from_fn(k: RK, m: usize, n: usize, f: impl Fn(usize, usize) -> RV) -> RM { RM { k, m, n, a: (0..m).map(|i| (0..n).map(|j| f(i, j)).collect()).collect() } }
    pub fn from_rows(k: RK, n: usize, rows: Vec<Vec<RV>>) -> RM { let m = rows.len(); for r in &rows { assert_eq!(r.len(), n); } RM { k, m, n, a: rows } }
    pub fn diag(k: RK, m: usize, n: usize, d: &[RV]) -> RM { let mut r = RM::zero(k, m, n); for (i, x) in d.iter().enumerate() { r.a[i][i] = x.clone(); } r }
    pub fn shape(&self) -> (usize, usize) { (self.m, self.n) }
    pub fn get(&self, i: usize, j: usize) -> &RV { &self.a[i][j] }
    pub fn is_zero(&self) -> bool { self.a.iter().all(|r| r.iter().all(|x| self.k.is_zero(x))) }
    pub fn is_id(&self) -> bool { self.m == self.n && *self == RM::id(self.k, self.n) }
    pub fn add(&self, o: &RM) -> RM { assert_eq!(self.shape(), o.shape()); RM::from_fn(self.k, self.m, self.n, |i, j| self.k.add(&self.a[i][j], &o.a[i][j])) }
    pub fn sub(&self, o: &RM) -> RM { assert_eq!(self.shape(), o.shape()); RM::from_fn(self.k, self.m, self.n, |i, j| self.k.sub(&self.a[i][j], &o.a[i][j])) }
    pub fn neg(&self) -> RM { RM::from_fn(self.k, self.m, self.n, |i, j| self.k.neg(&self.a[i][j])) }
    pub fn scale(&self, s: &RV) -> RM { RM::from_fn(self.k, self.m, self.n, |i, j| self.k.mul(&self.a[i][j], s)) }
    pub fn mul(&self, o: &RM) -> RM {
        assert_eq!(self.n, o.m, "refmat mul shape");
        let k = self.k;
        let mut r = RM::zero(k, self.m, o.n);
        for i in 0..self.m { for l in 0..self.n {
            let x = &self.a[i][l];
            if k.is_zero(x) { continue }
            for j in 0..o.n { if !k.is_zero(&o.a[l][j]) { r.a[i][j] = k.add(&r.a[i][j], &k.mul(x, &o.a[l][j])); } }
        } }
        r
    }
    pub fn transpose(&self) -> RM { RM::from_fn(self.k, self.n, self.m, |i, j| self.a[j][i].clone()) }
    pub fn submat(&self, r: std::ops::Range<usize>, c: std::ops::Range<usize>) -> RM {
        RM::from_fn(self.k, r.end - r.start, c.end - c.start, |i, j| self.a[r.start + i][c.start + j].clone())
    }
    /// new[p[i]][q[j]] = old[i][j]
    pub fn permute(&self, p: &[usize], q: &[usize]) -> RM {
        let mut r = RM::zero(self.k, self.m, self.n);
        for i in 0..self.m { for j in 0..self.n { r.a[p[i]][q[j]] = self.a[i][j].clone(); } }
        r
    }
    pub fn concat(&self, o: &RM) -> RM { assert_eq!(self.m, o.m); RM::from_fn(self.k, self.m, self.n + o.n, |i, j| if j < self.n { self.a[i][j].clone() } else { o.a[i][j - self.n].clone() }) }
    pub fn stack(&self, o: &RM) -> RM { assert_eq!(self.n, o.n); RM::from_fn(self.k, self.m + o.m, self.n, |i, j| if i < self.m { self.a[i][j].clone() } else { o.a[i - self.m][j].clone() }) }
    pub fn blocks(a: &RM, b: &RM, c: &RM, d: &RM) -> RM { a.concat(b).stack(&c.concat(d)) }
    pub fn col(&self, j: usize) -> RM { self.submat(0..self.m, j..j + 1) }
    pub fn rank_profile_nonzero_rows(&self) -> usize { self.a.iter().filter(|r| r.iter().any(|x| !self.k.is_zero(x))).count() }
    pub fn show(&self) -> String {
        let rows: Vec<String> = self.a.iter().map(|r| format!("[{}]", r.iter().map(|x| sv_str(&SV::of(x))).collect::<Vec<_>>().join(", "))).collect();
        format!("{}x{} [{}]", self.m, self.n, rows.join(", "))
    }
    pub fn to_sv(&self) -> Vec<Vec<SV>> { self.a.iter().map(|r| r.iter().map(SV::of).collect()).collect() }

    /// Bareiss-free determinant by fraction-free elimination is ring specific; generic Laplace for tiny sizes
    pub fn det(&self) -> RV {
        assert_eq!(self.m, self.n);
        let k = self.k;
        if self.n == 0 { return k.one() }
        if self.n == 1 { return self.a[0][0].clone() }
        let mut s = k.zero();
        for j in 0..self.n {
            if k.is_zero(&self.a[0][j]) { continue }
            let minor = RM::from_fn(k, self.n - 1, self.n - 1, |i, l| self.a[i + 1][if l < j { l } else { l + 1 }].clone());
            let t = k.mul(&self.a[0][j], &minor.det());
            s = if j % 2 == 0 { k.add(&s, &t) } else { k.sub(&s, &t) };
        }
        s
    }
}

pub fn sv_str(s: &SV) -> String {
    match s { SV::I(a) => a.clone(), SV::R(a, b) => format!("{a}/{b}"), SV::P(a, b) => format!("({a},{b})"), SV::Poly(c) => format!("poly[{}]", c.iter().map(sv_str).collect::<Vec<_>>().join(",")) }
}

// ---- conversions (public API of the containers only)

pub fn sp_to_rm<R: Sc>(a: &SpMat<R>) -> Result<RM, String> {
    let k = R::rk();
    let (m, n) = a.shape();
    let mut r = RM::zero(k, m, n);
    for (i, j, x) in a.iter() {
        if i >= m || j >= n { return Err(format!("entry ({i},{j}) outside shape {m}x{n}")) }
        r.a[i][j] = k.add(&r.a[i][j], &x.to_rv());
    }
    Ok(r)
}

pub fn spvec_to_rm<R: Sc>(v: &SpVec<R>) -> Result<RM, String> {
    let k = R::rk();
    let m = v.dim();
    let mut r = RM::zero(k, m, 1);
    for (i, x) in v.iter() {
        if i >= m { return Err(format!("entry {i} outside dim {m}")) }
        r.a[i][0] = k.add(&r.a[i][0], &x.to_rv());
    }
    Ok(r)
}

pub fn mat_to_rm<R: Sc>(a: &Mat<R>) -> RM {
    let (m, n) = a.shape();
    RM::from_fn(R::rk(), m, n, |i, j| a[(i, j)].to_rv())
}

pub fn rm_to_mat<R>(a: &RM) -> Option<Mat<R>> where R: Sc + yui::Ring, for<'x> &'x R: yui::RingOps<R> {
    let mut data = vec![];
    for i in 0..a.m { for j in 0..a.n { data.push(R::from_rv(&a.a[i][j])?); } }
    Some(Mat::from_data((a.m, a.n), data))
}

pub fn rm_to_sp<R>(a: &RM) -> Option<SpMat<R>> where R: Sc + yui::Ring, for<'x> &'x R: yui::RingOps<R> {
    let mut e = vec![];
    for i in 0..a.m { for j in 0..a.n { if !a.k.is_zero(&a.a[i][j]) { e.push((i, j, R::from_rv(&a.a[i][j])?)); } } }
    Some(SpMat::from_entries((a.m, a.n), e))
}

pub fn rm_to_spvec<R>(a: &RM) -> Option<SpVec<R>> where R: Sc + yui::Ring, for<'x> &'x R: yui::RingOps<R> {
    assert_eq!(a.n, 1);
    let mut e = vec![];
    for i in 0..a.m { if !a.k.is_zero(&a.a[i][0]) { e.push((i, R::from_rv(&a.a[i][0])?)); } }
    Some(SpVec::from_entries(a.m, e))
}
