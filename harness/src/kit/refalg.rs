//! Reference scalars, written from the definitions; nothing here calls yui.
//!
//! A ring is a runtime tag `RK`; an element is a `RV`.  Rings: Z, Q, F_p,
//! quadratic integers Z[w] for a square-free D (w = sqrt D for D = 2,3 mod 4,
//! w = (1+sqrt D)/2 for D = 1 mod 4), univariate polynomials over Q and F_p.

use num_bigint::{BigInt, BigUint, Sign};
use num_integer::Integer;
use num_rational::BigRational;
use num_traits::{One, Signed, Zero};
use serde::{Deserialize, Serialize};
use std::cmp::Ordering;

#[derive(Clone, Copy, Debug, PartialEq, Eq, Hash, Serialize, Deserialize)]
pub enum RK { Z, Q, F(u64), Quad(i32), PQ, PF(u64) }

#[derive(Clone, Debug, PartialEq, Eq, Hash)]
pub enum RV {
    Z(BigInt),
    Q(BigRational),
    F(u64),
    Quad(BigInt, BigInt),
    /// coefficients, lowest degree first, no trailing zero
    PQ(Vec<BigRational>),
    PF(Vec<u64>),
}

pub fn bi(x: i64) -> BigInt { BigInt::from(x) }
pub fn qq(n: i64, d: i64) -> BigRational { BigRational::new(bi(n), bi(d)) }

fn trim_q(mut v: Vec<BigRational>) -> Vec<BigRational> { while v.last().map(|c| c.is_zero()).unwrap_or(false) { v.pop(); } v }
fn trim_f(mut v: Vec<u64>) -> Vec<u64> { while v.last().map(|c| *c == 0).unwrap_or(false) { v.pop(); } v }

fn inv_mod(a: u64, p: u64) -> u64 {
    // Fermat
    let mut r = 1u128; let mut b = a as u128 % p as u128; let mut e = p - 2;
    while e > 0 { if e & 1 == 1 { r = r * b % p as u128; } b = b * b % p as u128; e >>= 1; }
    r as u64
}

impl RK {
    pub fn zero(&self) -> RV {
        match self {
            RK::Z => RV::Z(BigInt::zero()), RK::Q => RV::Q(BigRational::zero()), RK::F(_) => RV::F(0),
            RK::Quad(_) => RV::Quad(BigInt::zero(), BigInt::zero()), RK::PQ => RV::PQ(vec![]), RK::PF(_) => RV::PF(vec![]),
        }
    }
    pub fn one(&self) -> RV { self.from_int(&BigInt::one()) }
    pub fn from_i64(&self, x: i64) -> RV { self.from_int(&bi(x)) }
    pub fn from_int(&self, x: &BigInt) -> RV {
        match self {
            RK::Z => RV::Z(x.clone()),
            RK::Q => RV::Q(BigRational::from_integer(x.clone())),
            RK::F(p) => RV::F(x.mod_floor(&BigInt::from(*p)).to_u64_digits().1.first().cloned().unwrap_or(0)),
            RK::Quad(_) => RV::Quad(x.clone(), BigInt::zero()),
            RK::PQ => RV::PQ(trim_q(vec![BigRational::from_integer(x.clone())])),
            RK::PF(p) => { let RV::F(c) = RK::F(*p).from_int(x) else { unreachable!() }; RV::PF(trim_f(vec![c])) }
        }
    }
    pub fn is_field(&self) -> bool { matches!(self, RK::Q | RK::F(_)) }

    pub fn is_zero(&self, a: &RV) -> bool { *a == self.zero() }
    pub fn is_one(&self, a: &RV) -> bool { *a == self.one() }

    pub fn add(&self, a: &RV, b: &RV) -> RV {
        match (self, a, b) {
            (RK::Z, RV::Z(a), RV::Z(b)) => RV::Z(a + b),
            (RK::Q, RV::Q(a), RV::Q(b)) => RV::Q(a + b),
            (RK::F(p), RV::F(a), RV::F(b)) => RV::F((a + b) % p),
            (RK::Quad(_), RV::Quad(a, b), RV::Quad(c, d)) => RV::Quad(a + c, b + d),
            (RK::PQ, RV::PQ(a), RV::PQ(b)) => {
                let n = a.len().max(b.len());
                RV::PQ(trim_q((0..n).map(|i| a.get(i).cloned().unwrap_or_else(BigRational::zero) + b.get(i).cloned().unwrap_or_else(BigRational::zero)).collect()))
            }
            (RK::PF(p), RV::PF(a), RV::PF(b)) => {
                let n = a.len().max(b.len());
                RV::PF(trim_f((0..n).map(|i| (a.get(i).cloned().unwrap_or(0) + b.get(i).cloned().unwrap_or(0)) % p).collect()))
            }
            _ => panic!("refalg: ring/element mismatch {:?} {:?} {:?}", self, a, b),
        }
    }
    pub fn neg(&self, a: &RV) -> RV {
        match (self, a) {
            (RK::Z, RV::Z(a)) => RV::Z(-a),
            (RK::Q, RV::Q(a)) => RV::Q(-a),
            (RK::F(p), RV::F(a)) => RV::F((p - a) % p),
            (RK::Quad(_), RV::Quad(a, b)) => RV::Quad(-a, -b),
            (RK::PQ, RV::PQ(a)) => RV::PQ(a.iter().map(|c| -c).collect()),
            (RK::PF(p), RV::PF(a)) => RV::PF(a.iter().map(|c| (p - c) % p).collect()),
            _ => panic!("refalg: mismatch"),
        }
    }
    pub fn sub(&self, a: &RV, b: &RV) -> RV { self.add(a, &self.neg(b)) }
    pub fn mul(&self, a: &RV, b: &RV) -> RV {
        match (self, a, b) {
            (RK::Z, RV::Z(a), RV::Z(b)) => RV::Z(a * b),
            (RK::Q, RV::Q(a), RV::Q(b)) => RV::Q(a * b),
            (RK::F(p), RV::F(a), RV::F(b)) => RV::F(((*a as u128 * *b as u128) % *p as u128) as u64),
            (RK::Quad(d), RV::Quad(a, b), RV::Quad(c, e)) => {
                // w^2 = D (D = 2,3 mod 4);  w^2 = w + (D-1)/4 (D = 1 mod 4)
                if d.rem_euclid(4) == 1 {
                    let k = bi(((*d - 1) / 4) as i64);
                    RV::Quad(a * c + b * e * &k, a * e + b * c + b * e)
                } else {
                    RV::Quad(a * c + b * e * bi(*d as i64), a * e + b * c)
                }
            }
            (RK::PQ, RV::PQ(a), RV::PQ(b)) => {
                if a.is_empty() || b.is_empty() { return RV::PQ(vec![]) }
                let mut r = vec![BigRational::zero(); a.len() + b.len() - 1];
                for (i, x) in a.iter().enumerate() { for (j, y) in b.iter().enumerate() { r[i + j] += x * y; } }
                RV::PQ(trim_q(r))
            }
            (RK::PF(p), RV::PF(a), RV::PF(b)) => {
                if a.is_empty() || b.is_empty() { return RV::PF(vec![]) }
                let mut r = vec![0u64; a.len() + b.len() - 1];
                for (i, x) in a.iter().enumerate() { for (j, y) in b.iter().enumerate() {
                    r[i + j] = ((r[i + j] as u128 + *x as u128 * *y as u128) % *p as u128) as u64; } }
                RV::PF(trim_f(r))
            }
            _ => panic!("refalg: mismatch"),
        }
    }

    /// conjugate in a quadratic ring
    pub fn conj(&self, a: &RV) -> RV {
        match (self, a) {
            (RK::Quad(d), RV::Quad(a, b)) => if d.rem_euclid(4) == 1 { RV::Quad(a + b, -b) } else { RV::Quad(a.clone(), -b) },
            _ => a.clone(),
        }
    }
    /// field norm N(a) in Z for a quadratic integer
    pub fn qnorm(&self, a: &RV) -> BigInt {
        match (self, a) {
            (RK::Quad(d), RV::Quad(a, b)) => if d.rem_euclid(4) == 1 {
                a * a + a * b + b * b * bi(((1 - *d) / 4) as i64)
            } else { a * a - b * b * bi(*d as i64) },
            _ => panic!("qnorm"),
        }
    }

    /// Euclidean size: None for 0.  Z: |a|; Z[w] (D<0): N(a); fields: 1 (every non-zero is a unit); polynomials: degree + 1.
    pub fn size(&self, a: &RV) -> Option<BigUint> {
        if self.is_zero(a) { return None }
        Some(match (self, a) {
            (RK::Z, RV::Z(a)) => a.magnitude().clone(),
            (RK::Quad(_), _) => self.qnorm(a).magnitude().clone(),
            (RK::Q, _) | (RK::F(_), _) => BigUint::one(),
            (RK::PQ, RV::PQ(a)) => BigUint::from(a.len()),
            (RK::PF(_), RV::PF(a)) => BigUint::from(a.len()),
            _ => panic!("size"),
        })
    }

    pub fn is_unit(&self, a: &RV) -> bool {
        match (self, a) {
            (RK::Z, RV::Z(a)) => a.magnitude().is_one(),
            (RK::Q, _) | (RK::F(_), _) => !self.is_zero(a),
            (RK::Quad(_), _) => self.qnorm(a).magnitude().is_one(),
            (RK::PQ, RV::PQ(a)) => a.len() == 1,
            (RK::PF(_), RV::PF(a)) => a.len() == 1,
            _ => panic!("is_unit"),
        }
    }

    pub fn inv(&self, a: &RV) -> Option<RV> {
        if !self.is_unit(a) { return None }
        Some(match (self, a) {
            (RK::Z, RV::Z(a)) => RV::Z(a.clone()),
            (RK::Q, RV::Q(a)) => RV::Q(a.recip()),
            (RK::F(p), RV::F(a)) => RV::F(inv_mod(*a, *p)),
            (RK::Quad(_), _) => { let n = self.qnorm(a); self.mul(&self.conj(a), &self.from_int(&n)) } // n = +-1
            (RK::PQ, RV::PQ(a)) => RV::PQ(vec![a[0].recip()]),
            (RK::PF(p), RV::PF(a)) => RV::PF(vec![inv_mod(a[0], *p)]),
            _ => panic!("inv"),
        })
    }

    /// exact quotient b / a if a | b (a != 0)
    pub fn exact_div(&self, b: &RV, a: &RV) -> Option<RV> {
        if self.is_zero(a) { return None }
        match (self, b, a) {
            (RK::Z, RV::Z(b), RV::Z(a)) => { let (q, r) = b.div_rem(a); if r.is_zero() { Some(RV::Z(q)) } else { None } }
            (RK::Q, RV::Q(b), RV::Q(a)) => Some(RV::Q(b / a)),
            (RK::F(p), RV::F(b), RV::F(a)) => Some(RV::F(((*b as u128 * inv_mod(*a, *p) as u128) % *p as u128) as u64)),
            (RK::Quad(_), _, _) => {
                let n = self.qnorm(a);
                let RV::Quad(x, y) = self.mul(b, &self.conj(a)) else { unreachable!() };
                let (qx, rx) = x.div_rem(&n); let (qy, ry) = y.div_rem(&n);
                if rx.is_zero() && ry.is_zero() { Some(RV::Quad(qx, qy)) } else { None }
            }
            (RK::PQ, _, _) | (RK::PF(_), _, _) => { let (q, r) = self.poly_div_rem(b, a); if self.is_zero(&r) { Some(q) } else { None } }
            _ => panic!("exact_div"),
        }
    }
    pub fn divides(&self, a: &RV, b: &RV) -> bool { self.exact_div(b, a).is_some() }
    pub fn associates(&self, a: &RV, b: &RV) -> bool {
        if self.is_zero(a) || self.is_zero(b) { return self.is_zero(a) && self.is_zero(b) }
        self.divides(a, b) && self.divides(b, a)
    }

    pub fn poly_div_rem(&self, f: &RV, g: &RV) -> (RV, RV) {
        match (self, f, g) {
            (RK::PQ, RV::PQ(f), RV::PQ(g)) => {
                assert!(!g.is_empty());
                let mut r = f.clone(); let mut q = vec![BigRational::zero(); f.len().saturating_sub(g.len()) + 1];
                while r.len() >= g.len() {
                    let k = r.len() - g.len();
                    let c = r.last().unwrap() / g.last().unwrap();
                    for (j, y) in g.iter().enumerate() { r[k + j] -= &c * y; }
                    q[k] = c;
                    r = trim_q(r);
                    if r.len() > k + g.len() - 1 { r.truncate(k + g.len() - 1); r = trim_q(r); }
                }
                (RV::PQ(trim_q(q)), RV::PQ(r))
            }
            (RK::PF(p), RV::PF(f), RV::PF(g)) => {
                assert!(!g.is_empty());
                let p = *p as u128;
                let mut r = f.clone(); let mut q = vec![0u64; f.len().saturating_sub(g.len()) + 1];
                let ginv = inv_mod(*g.last().unwrap(), p as u64) as u128;
                while r.len() >= g.len() {
                    let k = r.len() - g.len();
                    let c = (*r.last().unwrap() as u128 * ginv) % p;
                    for (j, y) in g.iter().enumerate() { r[k + j] = ((r[k + j] as u128 + p * p - c * *y as u128 % p) % p) as u64; }
                    q[k] = c as u64;
                    r.truncate(k + g.len() - 1);
                    r = trim_f(r);
                }
                (RV::PF(trim_f(q)), RV::PF(r))
            }
            _ => panic!("poly_div_rem"),
        }
    }

    /// the reference definition of the normal form of an associate class
    /// (Z: >= 0; fields: 1; Z[i]: a > 0, b >= 0; Z[w], D=-3: a > 0, b >= 0; other D: a >= 0 (only +-1 considered); F[x]: monic)
    pub fn is_normal(&self, a: &RV) -> bool {
        if self.is_zero(a) { return true }
        match (self, a) {
            (RK::Z, RV::Z(a)) => a.is_positive(),
            (RK::Q, _) | (RK::F(_), _) => self.is_one(a),
            (RK::Quad(-1), RV::Quad(a, b)) | (RK::Quad(-3), RV::Quad(a, b)) => a.is_positive() && !b.is_negative(),
            (RK::Quad(_), RV::Quad(a, _)) => !a.is_negative(),
            (RK::PQ, RV::PQ(a)) => a.last().unwrap().is_one(),
            (RK::PF(_), RV::PF(a)) => *a.last().unwrap() == 1,
            _ => panic!("is_normal"),
        }
    }

    /// all units of the ring when finite and small (None otherwise)
    pub fn units(&self) -> Option<Vec<RV>> {
        match self {
            RK::Z => Some(vec![self.from_i64(1), self.from_i64(-1)]),
            RK::Quad(-1) => Some(vec![RV::Quad(bi(1), bi(0)), RV::Quad(bi(0), bi(1)), RV::Quad(bi(-1), bi(0)), RV::Quad(bi(0), bi(-1))]),
            RK::Quad(-3) => Some(vec![RV::Quad(bi(1), bi(0)), RV::Quad(bi(0), bi(1)), RV::Quad(bi(-1), bi(1)),
                                       RV::Quad(bi(-1), bi(0)), RV::Quad(bi(0), bi(-1)), RV::Quad(bi(1), bi(-1))]),
            RK::Quad(d) if *d < 0 => Some(vec![self.from_i64(1), self.from_i64(-1)]),
            RK::F(p) if *p <= 11 => Some((1..*p).map(RV::F).collect()),
            _ => None,
        }
    }

    pub fn pow(&self, a: &RV, n: u32) -> RV { (0..n).fold(self.one(), |r, _| self.mul(&r, a)) }

    /// is `a` a multiple of the integer `m` (used for "modulo the torsion order")
    pub fn name(&self) -> String {
        match self { RK::Z => "Z".into(), RK::Q => "Q".into(), RK::F(p) => format!("F{p}"), RK::Quad(d) => format!("Z[w;D={d}]"), RK::PQ => "Q[x]".into(), RK::PF(p) => format!("F{p}[x]") }
    }
}

pub fn cmp_q(a: &RV, b: &RV) -> Ordering {
    match (a, b) { (RV::Q(a), RV::Q(b)) => a.cmp(b), (RV::Z(a), RV::Z(b)) => a.cmp(b), _ => panic!("cmp_q") }
}

/// nearest integer to n/d (d != 0); returns (floor-ish candidates): the set of acceptable answers
/// (two at an exact tie).
pub fn nearest_ints(n: &BigInt, d: &BigInt) -> Vec<BigInt> {
    let two = bi(2);
    let (q, r) = n.div_mod_floor(d); // n = q d + r, r has the sign of d, |r| < |d|
    let r2 = (&r * &two).magnitude().clone();
    let dm = d.magnitude().clone();
    match r2.cmp(&dm) {
        Ordering::Less => vec![q],
        Ordering::Greater => vec![q + 1],
        Ordering::Equal => vec![q.clone(), q + 1],
    }
}

pub fn big_from_sign_mag(neg: bool, mag: BigUint) -> BigInt { BigInt::from_biguint(if neg { Sign::Minus } else { Sign::Plus }, mag) }

// ---------------------------------------------------------------------------
// printable / serialisable form of a reference value (decimal strings)

#[derive(Clone, Debug, PartialEq, Eq, Hash, Serialize, Deserialize)]
pub enum SV {
    /// integer (decimal)
    I(String),
    /// fraction
    R(String, String),
    /// pair (quadratic integer a + b w)
    P(String, String),
    /// polynomial: list of coefficients (lowest first)
    Poly(Vec<SV>),
}

pub fn parse_big(s: &str) -> BigInt { s.parse::<BigInt>().unwrap_or_else(|_| panic!("bad integer literal {s}")) }

impl SV {
    pub fn int(x: &BigInt) -> SV { SV::I(x.to_string()) }
    pub fn of(v: &RV) -> SV {
        match v {
            RV::Z(a) => SV::I(a.to_string()),
            RV::Q(a) => if a.is_integer() { SV::I(a.numer().to_string()) } else { SV::R(a.numer().to_string(), a.denom().to_string()) },
            RV::F(a) => SV::I(a.to_string()),
            RV::Quad(a, b) => SV::P(a.to_string(), b.to_string()),
            RV::PQ(c) => SV::Poly(c.iter().map(|x| SV::of(&RV::Q(x.clone()))).collect()),
            RV::PF(c) => SV::Poly(c.iter().map(|x| SV::I(x.to_string())).collect()),
        }
    }
    /// interpret in ring k (integers embed everywhere; fractions need Q / PQ)
    pub fn to_rv(&self, k: &RK) -> RV {
        match (self, k) {
            (SV::I(s), _) => k.from_int(&parse_big(s)),
            (SV::R(n, d), RK::Q) => RV::Q(BigRational::new(parse_big(n), parse_big(d))),
            (SV::R(n, d), RK::PQ) => RV::PQ(trim_q(vec![BigRational::new(parse_big(n), parse_big(d))])),
            (SV::R(n, d), RK::F(p)) => { let a = k.from_int(&parse_big(n)); let b = k.from_int(&parse_big(d)); if k.is_zero(&b) { a } else { RK::F(*p).exact_div(&a, &b).unwrap() } }
            (SV::P(a, b), RK::Quad(_)) => RV::Quad(parse_big(a), parse_big(b)),
            (SV::P(a, _), _) => k.from_int(&parse_big(a)),
            (SV::Poly(c), RK::PQ) => RV::PQ(trim_q(c.iter().map(|x| match x.to_rv(&RK::Q) { RV::Q(q) => q, _ => unreachable!() }).collect())),
            (SV::Poly(c), RK::PF(p)) => RV::PF(trim_f(c.iter().map(|x| match x.to_rv(&RK::F(*p)) { RV::F(q) => q, _ => unreachable!() }).collect())),
            (SV::Poly(c), _) => c.first().map(|x| x.to_rv(k)).unwrap_or_else(|| k.zero()),
            (SV::R(n, _), _) => k.from_int(&parse_big(n)),
        }
    }
}
