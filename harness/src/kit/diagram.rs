//! Link diagrams as PD codes: own combinatorics (orientation walk, signs, components, circles),
//! generators (table pool, braid closures, kinks, split unions, sums, over/under-only circles) and moves.
//! Nothing here uses yui-link except `to_link` (conversion through the public constructors).

use serde::{Deserialize, Serialize};
use std::collections::{BTreeMap, BTreeSet, HashMap};

#[derive(Clone, Copy, Debug, PartialEq, Eq, Hash, Serialize, Deserialize)]
pub enum CT { X, Xm, V, H }

#[derive(Clone, Debug, PartialEq, Eq, Hash, Serialize, Deserialize)]
pub struct Dg { pub x: Vec<(CT, [usize; 4])> }

pub fn pass(t: CT, k: usize) -> usize { match t { CT::X | CT::Xm => (k + 2) % 4, CT::V => 3 - k, CT::H => (5 - k) % 4 } }

#[derive(Clone, Debug)]
pub struct Strand {
    /// passages (crossing, index entered, index left) in the direction of travel
    pub pass: Vec<(usize, usize, usize)>,
    /// labels in the direction of travel (label between passage t and t+1 is labels[t])
    pub labels: Vec<usize>,
    /// no under-passage through a real crossing: orientation is a free choice
    pub free: bool,
}

#[derive(Clone, Debug)]
pub struct Orient {
    pub strands: Vec<Strand>,
    /// sign per crossing index (None for resolved crossings)
    pub signs: Vec<Option<i32>>,
    pub npos: usize,
    pub nneg: usize,
}

impl Dg {
    pub fn new(x: Vec<(CT, [usize; 4])>) -> Dg { Dg { x } }
    pub fn from_pd(pd: &[[usize; 4]]) -> Dg { Dg { x: pd.iter().map(|c| (CT::X, *c)).collect() } }
    pub fn n(&self) -> usize { self.x.len() }
    pub fn ncross(&self) -> usize { self.x.iter().filter(|c| matches!(c.0, CT::X | CT::Xm)).count() }
    pub fn labels(&self) -> BTreeSet<usize> { self.x.iter().flat_map(|c| c.1.iter().cloned()).collect() }
    pub fn max_label(&self) -> usize { self.labels().into_iter().max().unwrap_or(0) }

    pub fn to_link(&self) -> yui_link::Link {
        use yui_link::{Crossing, CrossingType};
        yui_link::Link::new(self.x.iter().map(|(t, e)| Crossing::new(match t { CT::X => CrossingType::X, CT::Xm => CrossingType::Xm, CT::V => CrossingType::V, CT::H => CrossingType::H }, *e)).collect())
    }
    /// plain PD code if there are only X crossings
    pub fn pd(&self) -> Option<Vec<[usize; 4]>> { if self.x.iter().all(|c| c.0 == CT::X) { Some(self.x.iter().map(|c| c.1).collect()) } else { None } }

    fn occurrences(&self) -> Result<HashMap<usize, Vec<(usize, usize)>>, String> {
        let mut occ: HashMap<usize, Vec<(usize, usize)>> = HashMap::new();
        for (i, (_, e)) in self.x.iter().enumerate() { for k in 0..4 { occ.entry(e[k]).or_default().push((i, k)); } }
        for (l, v) in &occ { if v.len() != 2 { return Err(format!("label {l} occurs {} times", v.len())) } }
        Ok(occ)
    }

    /// orientation walk.  `free_bits`: bit s reverses the s-th free strand (in order of discovery).
    pub fn orient(&self, free_bits: u32) -> Result<Orient, String> {
        let occ = self.occurrences()?;
        let n = self.n();
        let partner = |i: usize, k: usize| -> (usize, usize) { let v = &occ[&self.x[i].1[k]]; if v[0] == (i, k) { v[1] } else { v[0] } };
        let mut seen = vec![[false; 4]; n];
        let mut strands = vec![];
        let mut nfree = 0;
        for i0 in 0..n { for k0 in 0..4 {
            if seen[i0][k0] { continue }
            let (mut i, mut k) = (i0, k0);
            let mut ps = vec![]; let mut ls = vec![];
            loop {
                if seen[i][k] { break }
                let ko = pass(self.x[i].0, k);
                seen[i][k] = true; seen[i][ko] = true;
                ps.push((i, k, ko));
                ls.push(self.x[i].1[ko]);
                let (i2, k2) = partner(i, ko);
                i = i2; k = k2;
            }
            if (i, k) != (i0, k0) { return Err("walk did not close up".into()) }
            let real = |p: &(usize, usize, usize)| matches!(self.x[p.0].0, CT::X | CT::Xm);
            let fwd = ps.iter().any(|p| real(p) && p.1 == 0);
            let bwd = ps.iter().any(|p| real(p) && p.1 == 2);
            if fwd && bwd { return Err("under-strand directions are inconsistent along a component".into()) }
            let free = !fwd && !bwd;
            let mut rev = bwd;
            if free { if (free_bits >> nfree) & 1 == 1 { rev = true; } nfree += 1; }
            if rev {
                // reverse: passages in opposite order with in/out swapped; label after passage t is the label entered originally
                let m = ps.len();
                let rp: Vec<(usize, usize, usize)> = ps.iter().rev().map(|(i, a, b)| (*i, *b, *a)).collect();
                let rl: Vec<usize> = (0..m).map(|t| { let (i, kin, _) = ps[m - 1 - t]; self.x[i].1[kin] }).collect();
                ps = rp; ls = rl;
            }
            strands.push(Strand { pass: ps, labels: ls, free });
        } }
        let mut signs: Vec<Option<i32>> = vec![None; n];
        for s in &strands { for (i, kin, _) in &s.pass {
            let t = self.x[*i].0;
            if matches!(t, CT::X | CT::Xm) && (*kin == 1 || *kin == 3) {
                let sg = if *kin == 3 { 1 } else { -1 };
                signs[*i] = Some(if t == CT::Xm { -sg } else { sg });
            }
        } }
        for (i, c) in self.x.iter().enumerate() { if matches!(c.0, CT::X | CT::Xm) && signs[i].is_none() { return Err(format!("crossing {i} has no over passage")) } }
        let npos = signs.iter().filter(|s| **s == Some(1)).count();
        let nneg = signs.iter().filter(|s| **s == Some(-1)).count();
        Ok(Orient { strands, signs, npos, nneg })
    }

    pub fn nfree(&self) -> usize { self.orient(0).map(|o| o.strands.iter().filter(|s| s.free).count()).unwrap_or(0) }

    /// link components (through real crossings; resolved crossings join arcs): sets of labels
    pub fn components(&self) -> Result<Vec<BTreeSet<usize>>, String> {
        Ok(self.orient(0)?.strands.iter().map(|s| s.labels.iter().cloned().collect()).collect())
    }

    /// circles of the complete resolution given by `state` (bit per *real* crossing, in data order; 0 = 0-smoothing):
    /// returns (number of circles, label -> circle index ordered by minimal label)
    pub fn circles(&self, state: u64) -> (usize, BTreeMap<usize, usize>) {
        let labels: Vec<usize> = self.labels().into_iter().collect();
        let idx: HashMap<usize, usize> = labels.iter().enumerate().map(|(i, l)| (*l, i)).collect();
        let mut p: Vec<usize> = (0..labels.len()).collect();
        fn find(p: &mut Vec<usize>, x: usize) -> usize { let mut r = x; while p[r] != r { r = p[r]; } let mut y = x; while p[y] != r { let n = p[y]; p[y] = r; y = n; } r }
        let mut xi = 0;
        for (t, e) in &self.x {
            // 0-smoothing of X joins (0,1),(2,3) [type H]; 1-smoothing joins (0,3),(1,2) [type V]; Xm the other way
            let horiz = match t { CT::H => true, CT::V => false, CT::X | CT::Xm => { let b = (state >> xi) & 1 == 1; xi += 1; if *t == CT::X { !b } else { b } } };
            let pairs = if horiz { [(0, 1), (2, 3)] } else { [(0, 3), (1, 2)] };
            for (a, b) in pairs { let (ra, rb) = (find(&mut p, idx[&e[a]]), find(&mut p, idx[&e[b]])); if ra != rb { let (lo, hi) = if ra < rb { (ra, rb) } else { (rb, ra) }; p[hi] = lo; } }
        }
        let roots: Vec<usize> = (0..labels.len()).map(|i| find(&mut p, i)).collect();
        let mut rs: Vec<usize> = roots.clone(); rs.sort(); rs.dedup();
        let ci: HashMap<usize, usize> = rs.iter().enumerate().map(|(i, r)| (*r, i)).collect();
        (rs.len(), labels.iter().enumerate().map(|(i, l)| (*l, ci[&roots[i]])).collect())
    }

    // ------------------------------------------------------------------ moves (same oriented link unless stated)

    pub fn renumber(&self, f: impl Fn(usize) -> usize) -> Dg { Dg { x: self.x.iter().map(|(t, e)| (*t, [f(e[0]), f(e[1]), f(e[2]), f(e[3])])).collect() } }
    /// renumber labels by a pseudo-random injection into 0..3*#labels+7 (one seed in four: scaled by 997 and shifted)
    pub fn renumber_seeded(&self, seed: u64) -> Dg {
        let labels: Vec<usize> = self.labels().into_iter().collect();
        let m = labels.len().max(1) * 3 + 7;
        let mut pool: Vec<usize> = (0..m).collect();
        let mut s = seed | 1;
        for i in (1..pool.len()).rev() { s = s.wrapping_mul(6364136223846793005).wrapping_add(1442695040888963407); let j = (s >> 33) as usize % (i + 1); pool.swap(i, j); }
        // one seed in four: sparse, large labels (PD codes need not use consecutive or small labels)
        let (mul, off) = if seed % 4 == 0 { (997usize, 1_000_003usize * ((seed as usize >> 2) % 5)) } else { (1, 0) };
        let map: HashMap<usize, usize> = labels.iter().enumerate().map(|(i, l)| (*l, pool[i] * mul + off)).collect();
        self.renumber(|l| map[&l])
    }
    pub fn reorder_seeded(&self, seed: u64) -> Dg {
        let mut x = self.x.clone();
        let mut s = seed | 1;
        for i in (1..x.len()).rev() { s = s.wrapping_mul(6364136223846793005).wrapping_add(1442695040888963407); let j = (s >> 33) as usize % (i + 1); x.swap(i, j); }
        Dg { x }
    }
    /// reverse the orientation of every component at once: [a,b,c,d] -> [c,d,a,b]
    pub fn reverse_all(&self) -> Dg { Dg { x: self.x.iter().map(|(t, e)| if matches!(t, CT::X | CT::Xm) { (*t, [e[2], e[3], e[0], e[1]]) } else { (*t, *e) }).collect() } }
    /// mirror image by switching the crossing type
    pub fn mirror_type(&self) -> Dg { Dg { x: self.x.iter().map(|(t, e)| (match t { CT::X => CT::Xm, CT::Xm => CT::X, o => *o }, *e)).collect() } }
    /// mirror image as a plain PD code: every crossing is changed (new under strand = old over strand, orientation kept)
    pub fn mirror_pd(&self) -> Result<Dg, String> {
        let o = self.orient(0)?;
        Ok(Dg { x: self.x.iter().enumerate().map(|(i, (t, e))| match (t, o.signs[i]) {
            (CT::X, Some(1)) => (CT::X, [e[3], e[0], e[1], e[2]]),
            (CT::X, Some(-1)) => (CT::X, [e[1], e[2], e[3], e[0]]),
            (CT::Xm, Some(-1)) => (CT::Xm, [e[3], e[0], e[1], e[2]]),
            (CT::Xm, Some(1)) => (CT::Xm, [e[1], e[2], e[3], e[0]]),
            _ => (*t, *e) }).collect() })
    }
    /// change crossing k (index among all data entries; must be a real crossing): the over strand becomes the under strand
    pub fn crossing_change(&self, k: usize) -> Result<Dg, String> {
        let o = self.orient(0)?;
        let mut d = self.clone();
        let (t, e) = self.x[k];
        let s = o.signs[k].ok_or("not a real crossing")?;
        let s = if t == CT::Xm { -s } else { s };
        d.x[k] = (t, if s == 1 { [e[3], e[0], e[1], e[2]] } else { [e[1], e[2], e[3], e[0]] });
        Ok(d)
    }

    /// direction of a label: (crossing, index) where it leaves and (crossing, index) where it arrives
    pub fn ends(&self, o: &Orient, label: usize) -> Option<((usize, usize), (usize, usize))> {
        for s in &o.strands { let m = s.pass.len(); for t in 0..m { if s.labels[t] == label {
            let (i, _, ko) = s.pass[t]; let (j, kin, _) = s.pass[(t + 1) % m];
            return Some(((i, ko), (j, kin)))
        } } }
        None
    }

    /// Reidemeister I: a kink on the edge with the given label.  kind in 0..4: (positive/negative) x (under first / over first)
    pub fn kink(&self, label: usize, kind: u8) -> Result<Dg, String> {
        let o = self.orient(0)?;
        let (_, (j, kin)) = self.ends(&o, label).ok_or("no such label")?;
        let m = self.max_label();
        let (e2, l) = (m + 1, m + 2);
        let mut d = self.clone();
        d.x[j].1[kin] = e2; // the second half of the edge
        let e = label;
        let code = match kind % 4 {
            0 => [e, e2, l, l],   // under first, positive
            1 => [e, l, l, e2],   // under first, negative
            2 => [l, l, e2, e],   // over first, positive
            _ => [l, e, e2, l],   // over first, negative
        };
        d.x.push((CT::X, code));
        Ok(d)
    }

    /// Equivariant Reidemeister I for a diagram that is symmetric under the edge involution `rho`
    /// (rotation by pi about an axis in the plane of the diagram; it reverses the orientation of the knot and
    /// preserves crossing signs): a kink on the edge `label` and, when the edge is off the axis, the image kink on
    /// rho(label).  A crossing [a,b,c,d] has image [rb,ra,rd,rc] when it is positive and [rd,rc,rb,ra] when negative.
    /// Returns the new diagram; `rho` and `base` (an on-axis label) are updated in place.
    pub fn sym_kink(&self, label: usize, kind: u8, rho: &mut BTreeMap<usize, usize>, base: &mut usize) -> Result<Dg, String> {
        let f = *rho.get(&label).ok_or("no such label")?;
        let m = self.max_label();
        let d1 = self.kink(label, kind)?;
        let (e, e2, l) = (label, m + 1, m + 2);
        if f == label {
            rho.insert(e, e2); rho.insert(e2, e); rho.insert(l, l);
            if *base == e { *base = l; }
            return Ok(d1)
        }
        let o = d1.orient(0)?;
        let k = d1.n() - 1;
        let sign = o.signs[k].ok_or("kink has no sign")?;
        let (_, (j, kin)) = d1.ends(&o, f).ok_or("no such label")?;
        let (f2, lf) = (m + 3, m + 4);
        let mut d = d1.clone();
        d.x[j].1[kin] = f2;
        rho.insert(e, f2); rho.insert(f2, e); rho.insert(e2, f); rho.insert(f, e2); rho.insert(l, lf); rho.insert(lf, l);
        let c = d1.x[k].1.map(|a| rho[&a]);
        let img = if sign > 0 { [c[1], c[0], c[3], c[2]] } else { [c[3], c[2], c[1], c[0]] };
        d.x.push((CT::X, img));
        Ok(d)
    }

    /// oriented smoothing of the real crossing `k` (sign +: join (0,1),(2,3) = H; sign -: join (0,3),(1,2) = V), kept in place as a resolved crossing
    pub fn smooth_oriented(&self, k: usize) -> Result<Dg, String> {
        let o = self.orient(0)?;
        let sign = o.signs.get(k).cloned().flatten().ok_or("not a real crossing")?;
        let t = self.x[k].0;
        let mut d = self.clone();
        // Xm is the mirror crossing type: its sign was already negated by orient(); the pairing of the slots by travel direction is the same
        let pos = if t == CT::Xm { -sign } else { sign };
        d.x[k].0 = if pos > 0 { CT::H } else { CT::V };
        Ok(d)
    }

    /// the same diagram as a pure PD code: every resolved crossing is removed and the labels it joins are identified
    /// (None if a resolved crossing joins a label to itself, i.e. a free circle would be lost)
    pub fn purify(&self) -> Option<Dg> {
        let mut d = self.clone();
        loop {
            let Some(k) = d.x.iter().position(|c| matches!(c.0, CT::V | CT::H)) else { return Some(d) };
            let (t, e) = d.x[k];
            let pairs = if t == CT::H { [(e[0], e[1]), (e[2], e[3])] } else { [(e[0], e[3]), (e[1], e[2])] };
            if pairs[0].0 == pairs[0].1 || pairs[1].0 == pairs[1].1 { return None }
            // the two pairs may share labels (a chain a-b, b-c): identify step by step
            d.x.remove(k);
            let mut map = |from: usize, to: usize, d: &mut Dg| { for c in d.x.iter_mut() { for l in c.1.iter_mut() { if *l == from { *l = to; } } } };
            let (a, b) = pairs[0]; map(b, a, &mut d);
            let (c0, c1) = pairs[1]; let (c0, c1) = (if c0 == b { a } else { c0 }, if c1 == b { a } else { c1 });
            if c0 == c1 { return None }
            map(c1, c0, &mut d);
        }
    }

    /// K # rho(K) for a knot diagram K (pure PD code): the equivariant connected sum with the rotation rho by pi about an axis in
    /// the plane that meets the knot only in the two connecting arcs, so *no crossing lies on the axis*.  Edges are numbered
    /// 1..4n along the knot (n = crossings of K): edge 1 and edge 2n+1 are the connecting arcs (fixed by rho), 2..2n run through K,
    /// 2n+2..4n through rho(K), and rho(e) = 4n+2-e.  A crossing [a,b,c,d] of K has image [rb,ra,rd,rc] (positive) / [rd,rc,rb,ra] (negative).
    pub fn sym_double(&self) -> Result<Dg, String> {
        if self.x.is_empty() || self.x.iter().any(|c| c.0 != CT::X) { return Err("pure PD code of a knot needed".into()) }
        let o = self.orient(0)?;
        if o.strands.len() != 1 { return Err("not a knot".into()) }
        let s = &o.strands[0];
        let m = s.labels.len(); // 2n
        // consecutive numbering along the orientation: label after passage t -> t+1
        let pos: HashMap<usize, usize> = s.labels.iter().enumerate().map(|(t, l)| (*l, t + 1)).collect();
        if pos.len() != m { return Err("edge labels are not distinct along the knot".into()) }
        let mut k = self.renumber(|l| pos[&l]);
        // cut edge 1: its tail (the slot where it leaves a crossing) becomes edge 2n+1
        let o2 = k.orient(0)?;
        let ((i, ko), _) = k.ends(&o2, 1).ok_or("edge 1 not found")?;
        if o2.strands[0].labels.first() != Some(&1) && !o2.strands[0].labels.contains(&1) { return Err("renumbering failed".into()) }
        k.x[i].1[ko] = m + 1;
        let nn = 2 * m;
        let rho = |e: usize| (nn + 1 - e) % nn + 1;
        let mut out = k.clone();
        for (idx, (_, c)) in k.x.iter().enumerate() {
            let sign = o2.signs[idx].ok_or("crossing without sign")?;
            let r = c.map(rho);
            out.x.push((CT::X, if sign > 0 { [r[1], r[0], r[3], r[2]] } else { [r[3], r[2], r[1], r[0]] }));
        }
        let oo = out.orient(0)?;
        if oo.strands.len() != 1 || out.labels().len() != nn { return Err("double is not a knot diagram on 4n edges".into()) }
        Ok(out)
    }

    /// an unknotted circle laid over (over = true) or under an edge (Reidemeister II of a split unknot): L ~> L u O
    pub fn circle_across(&self, label: usize, over: bool) -> Result<Dg, String> {
        let o = self.orient(0)?;
        let (_, (j, kin)) = self.ends(&o, label).ok_or("no such label")?;
        let m = self.max_label();
        let (em, ee, c1, c2) = (m + 1, m + 2, m + 3, m + 4);
        let mut d = self.clone();
        d.x[j].1[kin] = ee;
        let e = label;
        if over { d.x.push((CT::X, [e, c1, em, c2])); d.x.push((CT::X, [em, c1, ee, c2])); }
        else { d.x.push((CT::X, [c2, e, c1, em])); d.x.push((CT::X, [c1, ee, c2, em])); }
        Ok(d)
    }

    pub fn split_union(&self, o: &Dg) -> Dg {
        let off = if self.x.is_empty() { 0 } else { self.max_label() + 1 };
        let mut x = self.x.clone();
        x.extend(o.x.iter().map(|(t, e)| (*t, [e[0] + off, e[1] + off, e[2] + off, e[3] + off])));
        Dg { x }
    }

    /// connected sum along the edge `l1` of self and `l2` of o
    pub fn connected_sum(&self, l1: usize, o: &Dg, l2: usize) -> Result<Dg, String> {
        let off = self.max_label() + 1;
        let u = self.split_union(o);
        let or = u.orient(0)?;
        let (_, (j1, k1)) = u.ends(&or, l1).ok_or("no such label")?;
        let (_, (j2, k2)) = u.ends(&or, l2 + off).ok_or("no such label")?;
        let mut d = u.clone();
        d.x[j1].1[k1] = l2 + off;
        d.x[j2].1[k2] = l1;
        Ok(d)
    }
}

// ---------------------------------------------------------------------- braids (own closure)

/// braid word: letters +-(i+1) for the generator between strands i, i+1 (0-based); positive letter = positive crossing
pub fn braid_closure(strands: usize, word: &[i32]) -> Option<Dg> {
    if strands < 2 { return None }
    let mut touched = vec![false; strands];
    for w in word { let i = w.unsigned_abs() as usize - 1; if i + 1 >= strands { return None } touched[i] = true; touched[i + 1] = true; }
    if touched.iter().any(|t| !t) { return None }
    let mut cur: Vec<usize> = (0..strands).collect(); // label currently at each position (bottom edges 0..strands)
    let mut next = strands;
    let mut x = vec![];
    for w in word {
        let i = w.unsigned_abs() as usize - 1;
        let (bl, br) = (cur[i], cur[i + 1]);
        let (tl, tr) = (next, next + 1); next += 2;
        // strands are oriented upwards.  positive: under strand goes from bottom-right to top-left
        if *w > 0 { x.push((CT::X, [br, tr, tl, bl])); } else { x.push((CT::X, [bl, br, tr, tl])); }
        cur[i] = tl; cur[i + 1] = tr;
    }
    // close: top label at position s is identified with the bottom label s
    let map: HashMap<usize, usize> = (0..strands).map(|s| (cur[s], s)).collect();
    let d = Dg { x };
    Some(d.renumber(|l| *map.get(&l).unwrap_or(&l)))
}

pub fn braid_perm_cycles(strands: usize, word: &[i32]) -> usize {
    let mut p: Vec<usize> = (0..strands).collect();
    for w in word { let i = w.unsigned_abs() as usize - 1; p.swap(i, i + 1); }
    let mut seen = vec![false; strands]; let mut c = 0;
    for s in 0..strands { if !seen[s] { c += 1; let mut t = s; while !seen[t] { seen[t] = true; t = p[t]; } } }
    c
}

pub fn torus_word(p: usize, q: usize) -> Vec<i32> { let mut w = vec![]; for _ in 0..q { for i in 1..p { w.push(i as i32); } } w }

/// braid-level moves (each keeps the closure's link type).  Returns None when not applicable.
#[derive(Clone, Debug, Serialize, Deserialize, PartialEq)]
pub enum BMove { FarCommute(u16), BraidRel(u16), InsertPair(u16, i8), Conjugate(i8), Stabilize(bool), RemovePair(u16) }

pub fn apply_bmove(strands: usize, word: &[i32], m: &BMove) -> Option<(usize, Vec<i32>)> {
    let n = word.len();
    let mut w = word.to_vec();
    match m {
        BMove::FarCommute(p) => { if n < 2 { return None } let i = (*p as usize * (n - 1)) >> 16; if (w[i].abs() - w[i + 1].abs()).abs() >= 2 { w.swap(i, i + 1); Some((strands, w)) } else { None } }
        BMove::BraidRel(p) => { if n < 3 { return None } let i = (*p as usize * (n - 2)) >> 16;
            let (a, b, c) = (w[i], w[i + 1], w[i + 2]);
            if a == c && (a.abs() - b.abs()).abs() == 1 && a.signum() == b.signum() { w[i] = b; w[i + 1] = a; w[i + 2] = b; Some((strands, w)) } else { None } }
        BMove::InsertPair(p, g) => { let i = (*p as usize * (n + 1)) >> 16; let g = (g.unsigned_abs() as usize % (strands - 1)) as i32 + 1; let g = if *p % 2 == 0 { g } else { -g };
            w.insert(i, g); w.insert(i + 1, -g); Some((strands, w)) }
        BMove::RemovePair(p) => { if n < 2 { return None } let i = (*p as usize * (n - 1)) >> 16; if w[i] == -w[i + 1] { w.remove(i); w.remove(i);
            let mut t = vec![false; strands]; for x in &w { let k = x.unsigned_abs() as usize - 1; t[k] = true; t[k + 1] = true; } if t.iter().all(|b| *b) { Some((strands, w)) } else { None } } else { None } }
        BMove::Conjugate(g) => { let k = (g.unsigned_abs() as usize % (strands - 1)) as i32 + 1; let k = if *g >= 0 { k } else { -k }; w.insert(0, k); w.push(-k); Some((strands, w)) }
        BMove::Stabilize(pos) => { w.push(if *pos { strands as i32 } else { -(strands as i32) }); Some((strands + 1, w)) }
    }
}

// ---------------------------------------------------------------------- table pool

pub const POOL_DIR: &str = "/repo/yui-link/resources/links";

#[derive(Clone, Debug)]
pub struct PoolEntry { pub name: String, pub pd: Vec<[usize; 4]> }

pub fn load_pool() -> Vec<PoolEntry> {
    let mut out = vec![];
    let Ok(rd) = std::fs::read_dir(POOL_DIR) else { return out };
    let mut files: Vec<std::path::PathBuf> = rd.filter_map(|e| e.ok()).map(|e| e.path()).filter(|p| p.extension().map(|x| x == "json").unwrap_or(false)).collect();
    files.sort();
    for f in files {
        let Ok(s) = std::fs::read_to_string(&f) else { continue };
        let Ok(pd) = serde_json::from_str::<Vec<[usize; 4]>>(&s) else { continue };
        out.push(PoolEntry { name: f.file_stem().unwrap().to_string_lossy().to_string(), pd });
    }
    out
}

pub fn pool() -> &'static Vec<PoolEntry> {
    static P: std::sync::OnceLock<Vec<PoolEntry>> = std::sync::OnceLock::new();
    P.get_or_init(load_pool)
}

/// names of pool entries with at most `maxc` crossings, sorted (deterministic)
pub fn pool_names(maxc: usize) -> Vec<String> { pool().iter().filter(|e| e.pd.len() <= maxc && !e.pd.is_empty()).map(|e| e.name.clone()).collect() }
pub fn pool_get(name: &str) -> Option<Dg> { pool().iter().find(|e| e.name == name).map(|e| Dg::from_pd(&e.pd)) }
