//! Generated dense matrices over the reference rings: planted (U D V with known diagonal) or random.

use proptest::prelude::*;
use serde::{Deserialize, Serialize};

use super::refalg::*;
use super::refmat::RM;
use super::sc::Ty;
use crate::engine::Tier;
use crate::props::c14::{int_val, resolve, Val};

#[derive(Clone, Debug, Serialize, Deserialize)]
pub enum MatSpec {
    /// D = diag(d) (if `chain`, d_k is replaced by d_1 * ... * d_k so that it is a divisibility chain) placed in an m x n zero matrix,
    /// then elementary operations: (kind, i, j, c): 0 row_j += c row_i, 1 col_j += c col_i, 2 swap rows, 3 swap cols, 4 row_i *= unit, 5 col_i *= unit
    Planted { m: u8, n: u8, diag: Vec<Val>, chain: bool, ops: Vec<(u8, u8, u8, Val)> },
    Random { m: u8, n: u8, entries: Vec<Val> },
}

impl MatSpec {
    /// (largest integer bit length, largest polynomial degree) over all values of the specification
    pub fn size(&self) -> (u32, usize) {
        use crate::props::c14::val_size;
        let f = |a: (u32, usize), b: (u32, usize)| (a.0.max(b.0), a.1.max(b.1));
        match self {
            MatSpec::Planted { diag, ops, .. } => diag.iter().map(val_size).chain(ops.iter().map(|o| val_size(&o.3))).fold((0, 0), f),
            MatSpec::Random { entries, .. } => entries.iter().map(val_size).fold((0, 0), f),
        }
    }
    pub fn shape(&self, maxdim: usize) -> (usize, usize) {
        match self { MatSpec::Planted { m, n, .. } | MatSpec::Random { m, n, .. } => (*m as usize % (maxdim + 1), *n as usize % (maxdim + 1)) }
    }
}

pub struct Built { pub a: RM, pub planted: Option<Vec<RV>>, pub planted_chain: bool }

pub fn build(k: RK, bits: Option<u32>, spec: &MatSpec, maxdim: usize) -> Built {
    let rs = |v: &Val| resolve(v, &k, bits, &k.zero(), &[]).unwrap_or_else(|| k.zero());
    let (m, n) = spec.shape(maxdim);
    match spec {
        MatSpec::Random { entries, .. } => {
            let a = RM::from_fn(k, m, n, |i, j| if entries.is_empty() { k.zero() } else { rs(&entries[(i * n + j) % entries.len()]) });
            Built { a, planted: None, planted_chain: false }
        }
        MatSpec::Planted { diag, chain, ops, .. } => {
            let r = m.min(n);
            let mut d: Vec<RV> = diag.iter().take(r).map(|v| rs(v)).collect();
            if *chain { for i in 1..d.len() { d[i] = k.mul(&d[i - 1], &d[i]); } }
            let mut a = RM::diag(k, m, n, &d);
            let units = k.units();
            for (kind, i, j, c) in ops {
                let cv = rs(c);
                match kind % 6 {
                    0 if m > 1 => { let (i, j) = (*i as usize % m, *j as usize % m); if i != j { for t in 0..n { a.a[j][t] = k.add(&a.a[j][t], &k.mul(&cv, &a.a[i][t])); } } }
                    1 if n > 1 => { let (i, j) = (*i as usize % n, *j as usize % n); if i != j { for t in 0..m { a.a[t][j] = k.add(&a.a[t][j], &k.mul(&cv, &a.a[t][i])); } } }
                    2 if m > 1 => { let (i, j) = (*i as usize % m, *j as usize % m); a.a.swap(i, j); }
                    3 if n > 1 => { let (i, j) = (*i as usize % n, *j as usize % n); for row in a.a.iter_mut() { row.swap(i, j); } }
                    4 if m > 0 => { if let Some(us) = &units { let u = &us[*j as usize % us.len()]; let i = *i as usize % m; for t in 0..n { a.a[i][t] = k.mul(u, &a.a[i][t]); } } }
                    5 if n > 0 => { if let Some(us) = &units { let u = &us[*j as usize % us.len()]; let i = *i as usize % n; for t in 0..m { a.a[t][i] = k.mul(u, &a.a[t][i]); } } }
                    _ => {}
                }
            }
            Built { a, planted: Some(d), planted_chain: *chain }
        }
    }
}

/// element strategy for a type: `size` = 0 small (|x| <= 12 / low degree), 1 medium, 2 large (beyond 2^53 where the type allows)
pub fn elem(ty: Ty, tier: Tier, size: u8) -> BoxedStrategy<Val> {
    let bits = ty.machine_bits();
    let cb = match size { 0 => Some(4u32), 1 => Some(bits.map(|b| (b / 6).max(5)).unwrap_or(16)), _ => bits.map(|b| b / 3) };
    let base = int_val(cb, tier);
    let frac = (base.clone(), int_val(cb.map(|b| b.min(6)).or(Some(6)), tier)).prop_map(|(a, b)| Val::Frac(Box::new(a), Box::new(b)));
    match ty.rk() {
        RK::Q => prop_oneof![4 => base.clone(), 3 => frac].boxed(),
        RK::F(_) => base.clone(),
        RK::Quad(_) => prop_oneof![2 => base.clone(), 5 => (base.clone(), base.clone()).prop_map(|(a, b)| Val::Pair(Box::new(a), Box::new(b)))].boxed(),
        RK::PQ | RK::PF(_) => {
            // polynomial rings over Q / F_p: small coefficients only (the coefficient growth of Q[x] elimination is not the subject here)
            let c = prop_oneof![2 => Just(Val::Zero), 2 => Just(Val::One), 6 => (-9i64..=9).prop_map(Val::Small)];
            prop::collection::vec(c, 0..(2 + size as usize)).prop_map(Val::Poly).boxed()
        }
        _ => base,
    }
}

pub fn mat_spec(ty: Ty, tier: Tier, maxdim: u8) -> BoxedStrategy<MatSpec> {
    let dim = move || prop_oneof![1 => Just(0u8), 1 => Just(1u8), 12 => 1..=maxdim.max(1), 2 => maxdim.saturating_sub(1).max(1)..=maxdim.max(1)];
    let size = prop_oneof![5 => Just(0u8), 3 => Just(1u8), 2 => Just(2u8)];
    size.prop_flat_map(move |sz| {
        let e = elem(ty, tier, sz);
        let e0 = elem(ty, tier, 0);
        let nz = prop_oneof![1 => Just(Val::Zero), 2 => Just(Val::One), 6 => e.clone()];
        let planted = (dim(), dim(), prop::collection::vec(nz, 0..=(maxdim as usize)), any::<bool>(),
                       prop::collection::vec((0u8..6, any::<u8>(), any::<u8>(), e0.clone()), 0..(3 * maxdim as usize + 2)))
            .prop_map(|(m, n, diag, chain, ops)| MatSpec::Planted { m, n, diag, chain, ops });
        let ent = prop_oneof![3 => Just(Val::Zero), 5 => e.clone(), 1 => Just(Val::One)];
        let random = (dim(), dim(), prop::collection::vec(ent, 1..(maxdim as usize * maxdim as usize + 2)))
            .prop_map(|(m, n, entries)| MatSpec::Random { m, n, entries });
        prop_oneof![3 => planted, 2 => random]
    }).boxed()
}

/// a unimodular matrix with its exact inverse, as a product of elementary operations
/// (kind, i, j, c): 0 row_j += c row_i, 1 swap rows i j, 2 row_i *= unit_j
pub fn unimodular(k: RK, n: usize, ops: &[(u8, u8, u8, i8)]) -> (RM, RM) {
    let mut u = RM::id(k, n);
    let mut ui = RM::id(k, n);
    if n == 0 { return (u, ui) }
    let units = k.units();
    for (kind, i, j, c) in ops {
        let (i, j) = (*i as usize % n, *j as usize % n);
        match kind % 3 {
            0 if i != j => {
                let cv = k.from_i64(*c as i64);
                // U <- E U with E = I + c e_j e_i^T ;  U^-1 <- U^-1 E^-1 = U^-1 (I - c e_j e_i^T): col_i -= c col_j
                for t in 0..n { u.a[j][t] = k.add(&u.a[j][t], &k.mul(&cv, &u.a[i][t])); }
                for t in 0..n { ui.a[t][i] = k.sub(&ui.a[t][i], &k.mul(&cv, &ui.a[t][j])); }
            }
            1 => { u.a.swap(i, j); for row in ui.a.iter_mut() { row.swap(i, j); } }
            2 => { if let Some(us) = &units { let un = &us[(j + *c as u8 as usize) % us.len()]; let uinv = k.inv(un).unwrap();
                for t in 0..n { u.a[i][t] = k.mul(un, &u.a[i][t]); ui.a[t][i] = k.mul(&ui.a[t][i], &uinv); } } }
            _ => {}
        }
    }
    debug_assert!(u.mul(&ui).is_id());
    (u, ui)
}
