//! Reference Khovanov homology: homology of the cube complex (kit::cube) by the harness's own elimination (kit::local).

use num_bigint::BigInt;
use std::collections::BTreeMap;

use super::cube::{submatrix, Cube};
use super::local::*;

#[derive(Clone, Debug, PartialEq, Eq, Default)]
pub struct RefH { pub rank: usize, pub tors: BTreeMap<u64, Vec<u32>> }

impl RefH { pub fn is_zero(&self) -> bool { self.rank == 0 && self.tors.values().all(|v| v.is_empty()) } }

struct DInfo { rank: usize, vals: BTreeMap<u64, Vec<u32>>, ok: bool }

fn dinfo(rows: &SpRows, ncols: usize, primes: &[u64]) -> DInfo {
    if rows.is_empty() || ncols == 0 || rows.iter().all(|r| r.is_empty()) { return DInfo { rank: 0, vals: primes.iter().map(|p| (*p, vec![])).collect(), ok: true } }
    let rank = rank_q_sparse(rows, ncols);
    let mut ok = true;
    let vals = primes.iter().map(|p| { let v = local_smith_sparse(rows, ncols, *p); if v.len() != rank { ok = false; } (*p, v.into_iter().filter(|x| *x > 0).collect()) }).collect();
    DInfo { rank, vals, ok }
}

/// homology over Z at the integer point (h,t): per homological degree.  Err if the p-adic precision was insufficient.
pub fn total_z(c: &Cube, h: &BigInt, t: &BigInt, primes: &[u64]) -> Result<BTreeMap<isize, RefH>, String> {
    let degs = c.degrees();
    let infos: BTreeMap<isize, DInfo> = degs.iter().map(|i| (*i, dinfo(&c.matrix(*i, h, t), c.rank(*i), primes))).collect();
    if infos.values().any(|d| !d.ok) { return Err("local-precision".into()) }
    Ok(degs.iter().map(|i| {
        let r_out = infos[i].rank;
        let (r_in, tors) = infos.get(&(i - 1)).map(|d| (d.rank, d.vals.clone())).unwrap_or((0, primes.iter().map(|p| (*p, vec![])).collect()));
        (*i, RefH { rank: c.rank(*i) - r_out - r_in, tors })
    }).collect())
}

/// bigraded homology over Z (h = t = 0): only non-zero groups are returned
pub fn bigraded_z(c: &Cube, primes: &[u64]) -> Result<BTreeMap<(isize, isize), RefH>, String> {
    let zero = BigInt::from(0);
    let degs = c.degrees();
    let mats: BTreeMap<isize, SpRows> = degs.iter().map(|i| (*i, c.matrix(*i, &zero, &zero))).collect();
    let mut out = BTreeMap::new();
    for q in c.q_values() {
        let mut infos: BTreeMap<isize, (usize, DInfo)> = BTreeMap::new();
        for i in &degs {
            let (rs, cs) = c.q_slice(*i, q);
            let sub = submatrix(&mats[i], &rs, &cs);
            infos.insert(*i, (cs.len(), dinfo(&sub, cs.len(), primes)));
        }
        if infos.values().any(|d| !d.1.ok) { return Err("local-precision".into()) }
        for i in &degs {
            let (n, d) = &infos[i];
            let (r_in, tors) = infos.get(&(i - 1)).map(|d| (d.1.rank, d.1.vals.clone())).unwrap_or((0, BTreeMap::new()));
            let hh = RefH { rank: n - d.rank - r_in, tors: tors.into_iter().filter(|(_, v)| !v.is_empty()).collect() };
            if !hh.is_zero() { out.insert((*i, q), hh); }
        }
    }
    Ok(out)
}

/// dimensions over the prime field F_q (q prime) or Q (q = 0) at the integer point (h,t)
pub fn total_field(c: &Cube, h: &BigInt, t: &BigInt, q: u64) -> BTreeMap<isize, usize> {
    let degs = c.degrees();
    let rk = |rows: &SpRows, n: usize| if q == 0 { rank_q_sparse(rows, n) } else { rank_mod_sparse(rows, n, q) };
    let ranks: BTreeMap<isize, usize> = degs.iter().map(|i| (*i, rk(&c.matrix(*i, h, t), c.rank(*i)))).collect();
    degs.iter().map(|i| (*i, c.rank(*i) - ranks[i] - ranks.get(&(i - 1)).cloned().unwrap_or(0))).collect()
}

pub fn bigraded_field(c: &Cube, q: u64) -> BTreeMap<(isize, isize), usize> {
    let zero = BigInt::from(0);
    let degs = c.degrees();
    let mats: BTreeMap<isize, SpRows> = degs.iter().map(|i| (*i, c.matrix(*i, &zero, &zero))).collect();
    let rk = |rows: &SpRows, n: usize| if q == 0 { rank_q_sparse(rows, n) } else { rank_mod_sparse(rows, n, q) };
    let mut out = BTreeMap::new();
    for qq in c.q_values() {
        let mut info: BTreeMap<isize, (usize, usize)> = BTreeMap::new();
        for i in &degs { let (rs, cs) = c.q_slice(*i, qq); let sub = submatrix(&mats[i], &rs, &cs); info.insert(*i, (cs.len(), rk(&sub, cs.len()))); }
        for i in &degs { let d = info[i].0 - info[i].1 - info.get(&(i - 1)).map(|x| x.1).unwrap_or(0); if d > 0 { out.insert((*i, qq), d); } }
    }
    out
}

/// compare a library answer (rank, torsion orders) with a reference group at the given primes
pub fn same_group(lib_rank: usize, lib_tors: &[BigInt], r: &RefH, primes: &[u64]) -> Result<(), String> {
    if lib_rank != r.rank { return Err(format!("free rank {} (library) vs {} (cube)", lib_rank, r.rank)) }
    for p in primes {
        let lv = valuations(lib_tors, *p);
        let rv = r.tors.get(p).cloned().unwrap_or_default();
        if lv != rv { return Err(format!("{p}-primary torsion exponents {:?} (library, orders {:?}) vs {:?} (cube)", lv, lib_tors.iter().map(|t| t.to_string()).collect::<Vec<_>>(), rv)) }
    }
    Ok(())
}
