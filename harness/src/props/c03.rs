//! C03 Tables over Z, Q, F2, F3 are mutually consistent; two routes to a bigraded table; F2 reduced vs unreduced.

use num_bigint::BigInt;
use num_integer::Integer;
use num_traits::{One, Zero};
use proptest::prelude::*;
use serde::{Deserialize, Serialize};
use std::collections::{BTreeMap, BTreeSet};
use yui::{Ratio, FF, FF2};
use yui_homology::{GridTrait, SummandTrait};
use yui_kh::kh::KhHomologyBigraded;

use crate::engine::*;
use crate::ensure;
use crate::kit::dgen::*;
use crate::kit::diagram::*;
use crate::kit::pools::with_threads;
use crate::props::c01::{lib_bigraded_b, LibBi};
use crate::props::c02::norm;

pub struct C03;

#[derive(Clone, Debug, Serialize, Deserialize)]
pub struct Case { pub d: DSpec, pub threads: u8, pub only_routes: bool }

fn big_of<R: crate::kit::sc::Sc>(x: &R) -> BigInt { match x.to_rv() { crate::kit::refalg::RV::Z(z) => z, crate::kit::refalg::RV::F(v) => BigInt::from(v), crate::kit::refalg::RV::Q(q) => q.numer().clone(), _ => BigInt::zero() } }

pub fn lib_bigraded_a<R>(l: &yui_link::Link, red: bool) -> LibBi where R: yui::EucRing + crate::kit::sc::Sc, for<'x> &'x R: yui::EucRingOps<R> {
    let kh = KhHomologyBigraded::<R>::new(l, &R::zero(), &R::zero(), red);
    kh.support().map(|idx| ((idx.0, idx.1), (kh[(idx.0, idx.1)].rank(), kh[(idx.0, idx.1)].tors().iter().map(big_of).collect::<Vec<_>>()))).filter(|(_, v)| v.0 > 0 || !v.1.is_empty()).collect()
}

type T = BTreeMap<(isize, isize), (usize, Vec<BigInt>)>;

/// invariant-factor normal form (divisibility chain, units dropped) of a direct sum of cyclic groups
fn invariant_factors(mut v: Vec<BigInt>) -> Vec<BigInt> {
    loop {
        let mut changed = false;
        for i in 0..v.len() { for j in i + 1..v.len() {
            let (g, l) = (v[i].gcd(&v[j]), v[i].lcm(&v[j]));
            if v[i] != g || v[j] != l { changed = true; v[i] = g; v[j] = l; }
        } }
        if !changed { break }
    }
    let mut v: Vec<BigInt> = v.into_iter().filter(|x| !x.is_one()).collect();
    v.sort();
    v
}

/// Is the difference between route A and route B an instance of the known finding F-C03-1?
/// Signature: free ranks agree per bidegree; in every homological degree where the tables differ
///  (1) the torsion orders route A lists in that degree are exactly the invariant factors of the direct sum of the torsion route B
///      lists in that degree (A's summands are B's summands merged by the Smith normalisation),
///  (2) every A summand sits at a q-degree where B has torsion sharing a prime with it (a merged generator is filed under the q of one of its parts),
///  (3) route B has two summands of orders with neither dividing the other at distinct q (otherwise nothing could have been merged across q).
fn is_known_merge(a: &T, b: &T) -> bool {
    let keys: BTreeSet<(isize, isize)> = a.keys().chain(b.keys()).cloned().collect();
    if keys.iter().any(|k| a.get(k).map(|v| v.0).unwrap_or(0) != b.get(k).map(|v| v.0).unwrap_or(0)) { return false }
    let degs: BTreeSet<isize> = keys.iter().map(|k| k.0).collect();
    let one = BigInt::one();
    for i in degs {
        let differs = keys.iter().filter(|k| k.0 == i).any(|k| a.get(k).map(|v| v.1.clone()).unwrap_or_default() != b.get(k).map(|v| v.1.clone()).unwrap_or_default());
        if !differs { continue }
        let ta: Vec<(isize, BigInt)> = a.iter().filter(|(k, _)| k.0 == i).flat_map(|(k, v)| v.1.iter().map(move |t| (k.1, t.clone()))).collect();
        let tb: Vec<(isize, BigInt)> = b.iter().filter(|(k, _)| k.0 == i).flat_map(|(k, v)| v.1.iter().map(move |t| (k.1, t.clone()))).collect();
        let mut sa: Vec<BigInt> = ta.iter().map(|x| x.1.clone()).collect(); sa.sort();
        if sa != invariant_factors(tb.iter().map(|x| x.1.clone()).collect()) { return false }
        if !ta.iter().all(|(q, t)| tb.iter().any(|(q2, t2)| q2 == q && t.gcd(t2) != one)) { return false }
        if !tb.iter().any(|(q1, t1)| tb.iter().any(|(q2, t2)| q1 != q2 && !t1.is_multiple_of(t2) && !t2.is_multiple_of(t1))) { return false }
    }
    true
}

fn run_case(c: &Case, tier: Tier) -> Chk<Pass> {
    let dg = match build(&c.d) { Ok(d) => d, Err(e) => return discard(format!("diagram-build: {e}")) };
    if dg.orient(0).is_err() { return discard("diagram-invalid") }
    let cap = tier.pick(14usize, 16usize);
    if dg.ncross() > cap && !c.only_routes { return discard("size-cap") }
    let l = dg.to_link();
    let threads = [1usize, 4, 16][c.threads as usize % 3];
    let what = format!("{:?} threads={threads} diagram={:?}", c.d, dg.x);
    let what = if what.len() > 900 { format!("{}...", &what[..900]) } else { what };
    macro_rules! lib { ($e:expr) => { match with_threads(threads, || guard(|| $e)) { Ok(v) => norm(&v), Err(m) => { if is_arith_overflow(&m) { return discard("machine-overflow") } return bad(format!("{what}: library panicked: {m}")) } } } }
    let zb: T = lib!(lib_bigraded_b::<BigInt>(&l, false));
    let has_tors = zb.values().any(|v| !v.1.is_empty());
    let ncomp = dg.components().map(|c| c.len()).unwrap_or(0);
    let mut pass = Pass::new();

    // (c) route A == route B
    let za: T = lib!(lib_bigraded_a::<BigInt>(&l, false));
    if za != zb {
        let tag = if is_known_merge(&za, &zb) { "[F-C03-1] " } else { "" };
        return bad(format!("{tag}{what}: bigraded table from the total homology (route A) differs from the homology of the bigraded pieces (route B) over Z:\n  A: {:?}\n  B: {:?}", za, zb));
    }
    if c.only_routes { return Ok(pass.nt(has_tors).label("routes-only")) }
    macro_rules! routes { ($t:ty, $name:expr, $red:expr) => {{ let a: T = lib!(lib_bigraded_a::<$t>(&l, $red)); let b: T = lib!(lib_bigraded_b::<$t>(&l, $red));
        if a != b { let tag = if is_known_merge(&a, &b) { "[F-C03-1] " } else { "" }; return bad(format!("{tag}{what}: route A != route B over {} (reduced = {}):\n  A: {:?}\n  B: {:?}", $name, $red, a, b)); } b }} }
    let zi64 = routes!(i64, "i64", false);
    let zi128 = routes!(i128, "i128", false);
    ensure!(zi64 == zb && zi128 == zb, "{what}: tables over i64 / i128 / BigInt differ");
    let q = routes!(Ratio<i64>, "Q", false);
    let f2 = routes!(FF2, "F2", false);
    let f3 = routes!(FF<3>, "F3", false);
    // (a) rank_Q == rank_Z
    let keys: BTreeSet<(isize, isize)> = zb.keys().chain(q.keys()).chain(f2.keys()).chain(f3.keys()).cloned().collect();
    for k in &keys {
        let rz = zb.get(k).map(|v| v.0).unwrap_or(0);
        let rq = q.get(k).map(|v| v.0).unwrap_or(0);
        ensure!(rq == rz, "{what}: bidegree {:?}: rank over Q = {rq}, free rank over Z = {rz}", k);
        // (b) universal coefficients for F2, F3
        for (p, tab) in [(2u32, &f2), (3u32, &f3)] {
            let pb = BigInt::from(p);
            let cnt = |kk: (isize, isize)| zb.get(&kk).map(|v| v.1.iter().filter(|t| t.is_multiple_of(&pb)).count()).unwrap_or(0);
            let want = rz + cnt(*k) + cnt((k.0 + 1, k.1));
            let got = tab.get(k).map(|v| v.0).unwrap_or(0);
            ensure!(got == want, "{what}: bidegree {:?}: dim over F{p} = {got}, but rank_Z + #{p}-torsion({:?}) + #{p}-torsion({:?}) = {rz} + {} + {} = {want}\n  Z table: {:?}", k, k, (k.0 + 1, k.1), cnt(*k), cnt((k.0 + 1, k.1)), zb);
        }
    }
    // (d) over F2: unreduced = reduced (x) unknot
    if !dg.x.is_empty() && dg.ncross() > 0 || dg.x.len() > 0 {
        let r2 = routes!(FF2, "F2", true);
        let ks: BTreeSet<(isize, isize)> = f2.keys().cloned().chain(r2.keys().flat_map(|k| [(k.0, k.1 - 1), (k.0, k.1 + 1)])).collect();
        for k in ks {
            let u = f2.get(&k).map(|v| v.0).unwrap_or(0);
            let r = r2.get(&(k.0, k.1 - 1)).map(|v| v.0).unwrap_or(0) + r2.get(&(k.0, k.1 + 1)).map(|v| v.0).unwrap_or(0);
            ensure!(u == r, "{what}: over F2, unreduced dim at {:?} = {u} but reduced(i,j-1) + reduced(i,j+1) = {r}", k);
        }
        if ncomp == 1 { let _ = routes!(BigInt, "Z", true); let _ = routes!(FF<3>, "F3", true); }
    }
    pass = pass.nt(has_tors || ncomp >= 2).label_if(has_tors, "torsion").label_if(ncomp >= 2, "multi-component")
        .label_if(zb.values().any(|v| v.1.iter().any(|t| !t.is_multiple_of(&BigInt::from(2)))), "odd-torsion").label(format!("crossings:{}", (dg.ncross() / 3) * 3));
    Ok(pass)
}

pub fn witness_t56_trefoil() -> Case {
    Case { d: DSpec { src: Src::Torus(5, 6), mods: vec![Mod::Union(Src::Pd(vec![[1, 5, 2, 4], [3, 1, 4, 6], [5, 3, 6, 2]]))] }, threads: 2, only_routes: true }
}

impl Prop for C03 {
    type Case = Case;
    const ID: &'static str = "C03";
    fn rule() -> String {
        "case = (link diagram: table link up to 11 crossings, braid closure up to 12 letters, torus link, corner cases, 0..2 modifications incl. split unions and connected sums; thread count). relations between library answers only: \
         (a) rank over Q == free rank over Z per bidegree; (b) dim over F_p == rank_Z + #(Z-torsion of order divisible by p in (i,j)) + #(.. in (i+1,j)) for p = 2, 3; \
         (c) KhHomologyBigraded::new (table from the total homology) == KhComplexBigraded.homology (homology of the bigraded pieces) over i64, i128, BigInt, Ratio<i64>, FF2, FF<3>, reduced and unreduced; tables over i64/i128/BigInt equal; (d) over F2: unreduced(i,j) == reduced(i,j-1) + reduced(i,j+1). \
         non-trivial = a link with torsion or >= 2 components".into()
    }
    fn assumptions() -> Vec<String> { vec!["torsion counts for (b) are read from the homology of the bigraded pieces (route B)".into(),
        "known finding F-C03-1 (route A merges coprime torsion across q-degrees) is recognised by its signature and excluded from the search".into()] }
    fn strategy(tier: Tier) -> BoxedStrategy<Case> {
        let big = prop_oneof![8 => dspec_strategy(tier.pick(10, 11), 2),
            1 => Just(DSpec { src: Src::Torus(3, 5), mods: vec![] }), 1 => Just(DSpec { src: Src::Torus(4, 5), mods: vec![] }), 1 => Just(DSpec { src: Src::Torus(3, 7), mods: vec![] })];
        (big, any::<u8>()).prop_map(|(d, threads)| Case { d, threads, only_routes: false }).boxed()
    }
    fn fixed_cases(tier: Tier) -> Vec<Case> {
        let mut v = vec![Case { d: DSpec { src: Src::Torus(4, 5), mods: vec![] }, threads: 2, only_routes: false }, Case { d: DSpec { src: Src::Torus(5, 6), mods: vec![] }, threads: 2, only_routes: true }];
        if tier.is_thorough() {
            v.push(Case { d: DSpec { src: Src::Torus(6, 7), mods: vec![] }, threads: 2, only_routes: true });
            v.push(Case { d: DSpec { src: Src::Torus(5, 6), mods: vec![Mod::Union(Src::Pool("3_1".into()))] }, threads: 2, only_routes: true });
            v.push(Case { d: DSpec { src: Src::Torus(5, 6), mods: vec![Mod::Sum(Src::Corner(7), 0, 0)] }, threads: 2, only_routes: true });
        }
        v
    }
    fn fixed_parallel(_: Tier) -> usize { 2 }
    fn cases(tier: Tier) -> u32 { tier.pick(600, 5_000) }
    fn shards(tier: Tier) -> usize { tier.pick(8, 16) }
    fn replay_repeats() -> usize { 2 }
    fn finding_key(_case: &Case, msg: &str) -> Option<String> { if msg.starts_with("[F-C03-1]") { Some("F-C03-1".into()) } else { None } }
    fn run(case: &Case, ctx: &Ctx) -> Outcome { to_outcome(run_case(case, ctx.tier)) }
}
