//! C11 Parallel pivot search always returns an acyclic (triangular) pivot set, under harness-owned schedules.

use proptest::prelude::*;
use serde::{Deserialize, Serialize};
use std::collections::BTreeSet;
use std::sync::atomic::{AtomicU64, AtomicUsize, Ordering};
use std::sync::{Arc, Condvar, Mutex};
use std::time::{Duration, Instant};
use yui::poly::Poly;
use yui::{Ratio, FF};
use yui_matrix::sparse::pivot::{find_pivots, perms_by_pivots, PivotCondition, PivotType};
use yui_matrix::sparse::verif_hooks::{self, Point};
use yui_matrix::sparse::SpMat;
use yui_matrix::MatTrait;

use crate::engine::*;
use crate::ensure;
use crate::kit::pools::with_threads;
use crate::kit::refalg::*;

pub struct C11;

#[derive(Clone, Copy, Debug, Serialize, Deserialize, PartialEq)]
pub enum RTy { I64, Q, F3, PolyH }

#[derive(Clone, Copy, Debug, Serialize, Deserialize, PartialEq)]
pub enum Cond { One, AnyUnit, Weight(u8) }

#[derive(Clone, Copy, Debug, Serialize, Deserialize, PartialEq)]
pub enum Sched { Free, Barrier(u8), Delay(u32, u16), Stagger }

#[derive(Clone, Debug, Serialize, Deserialize)]
pub enum Shape {
    /// random sparse matrix: entries (row, col, value-code)
    Random { m: u8, n: u8, e: Vec<(u8, u8, u8)> },
    /// conflict-rich: a staircase head (consumed by the cheap phases) plus L rows whose candidates collide pairwise
    /// (row k has candidate entries in columns c_k and c_{k+1}, non-candidate entries elsewhere) plus noise
    Ring { l: u8, extra: Vec<(u8, u8, u8)>, cross: Vec<(u8, u8, u8)>, head: u8 },
    /// large and very sparse (up to 3000 x 8192; the sizes at which the search structure is worth parallelising further):
    /// `groups` independent blocks  P_t = [u_t: 0, p_t: unit, c_t: unit],  A_t = [u_t: non-candidate, p_t: 0, c_t: unit]
    /// (A_t loses c_t to the cheap phases and goes to the cycle-free search), then `m_extra` pseudo-random rows with
    /// 1..per_row entries from `seed`, on n = 3 groups + n_extra columns
    Huge { groups: u16, m_extra: u16, n_extra: u16, per_row: u8, seed: u32 },
    /// a long bidiagonal chain r_k = e_k + e_(k+1), k = 1..N (N up to 7000: every pivot is reachable from the first), plus rows
    /// x = (non-candidate) e_0 + e_a + e_b that close a cycle through the chain if both of their candidates were taken
    Chain { n: u16, closers: Vec<(u16, u16)> },
}

#[derive(Clone, Debug, Serialize, Deserialize)]
pub struct Case { pub rty: RTy, pub shape: Shape, pub cols: bool, pub cond: Cond, pub threads: u8, pub sched: Sched }

/// value codes -> (is candidate-friendly?) entries per ring.  code 0..: units first, then non-units
#[derive(Clone, Debug, PartialEq)]
pub(crate) enum V { I(i64), Q(i64, i64), F(i32), P(Vec<i64>) }

fn value(rty: RTy, code: u8) -> V {
    match rty {
        RTy::I64 => V::I([1, -1, 1, -1, 2, -2, 3, 1, -1, 4][code as usize % 10]),
        RTy::Q => { let t = [(1, 1), (-1, 1), (2, 1), (1, 2), (-3, 1), (2, 3), (1, 1), (5, 1), (-1, 4), (7, 2)][code as usize % 10]; V::Q(t.0, t.1) }
        RTy::F3 => V::F([1, 2][code as usize % 2]),
        RTy::PolyH => V::P([vec![1], vec![-1], vec![1], vec![0, 1], vec![2], vec![1, 1], vec![-1], vec![0, 0, 1], vec![1], vec![0, -1]][code as usize % 10].clone()),
    }
}

impl V {
    /// reference value (Z, Q, F3, Q[H])
    pub(crate) fn to_rv(&self) -> RV {
        use num_rational::BigRational;
        match self {
            V::I(x) => RV::Z(bi(*x)), V::Q(a, b) => RV::Q(BigRational::new(bi(*a), bi(*b))), V::F(x) => RV::F(x.rem_euclid(3) as u64),
            V::P(c) => { let mut c: Vec<BigRational> = c.iter().map(|x| BigRational::from_integer(bi(*x))).collect(); while c.last().map(|x| num_traits::Zero::is_zero(x)).unwrap_or(false) { c.pop(); } RV::PQ(c) }
        }
    }
    fn is_pm_one(&self) -> bool { match self { V::I(x) => x.abs() == 1, V::Q(a, b) => a.abs() == 1 && *b == 1, V::F(x) => *x == 1 || *x == 2, V::P(c) => c.len() == 1 && c[0].abs() == 1 } }
    fn is_unit(&self) -> bool { match self { V::I(x) => x.abs() == 1, V::Q(a, _) => *a != 0, V::F(x) => *x != 0, V::P(c) => c.len() == 1 && c[0].abs() == 1 } }
    /// the library's documented computational weight for Z and Q; None where the property's "bounded weight" has no independent definition
    fn weight(&self) -> Option<f64> { match self { V::I(x) => Some(x.abs() as f64), V::Q(a, b) => Some((a.abs() as f64).max(b.abs() as f64)), _ => None } }
    fn is_zero(&self) -> bool { match self { V::I(x) => *x == 0, V::Q(a, _) => *a == 0, V::F(x) => *x % 3 == 0, V::P(c) => c.iter().all(|x| *x == 0) } }
    fn add(&self, o: &V) -> V { match (self, o) {
        (V::I(a), V::I(b)) => V::I(a + b),
        (V::Q(a, b), V::Q(c, d)) => { let (n, dd) = (a * d + c * b, b * d); let g = num_integer::gcd(n, dd).max(1); V::Q(n / g, dd / g) }
        (V::F(a), V::F(b)) => V::F((a + b) % 3),
        (V::P(a), V::P(b)) => { let n = a.len().max(b.len()); let mut c: Vec<i64> = (0..n).map(|i| a.get(i).unwrap_or(&0) + b.get(i).unwrap_or(&0)).collect(); while c.last() == Some(&0) { c.pop(); } V::P(c) }
        _ => unreachable!() } }
    fn satisfies(&self, c: Cond) -> bool { match c { Cond::One => self.is_pm_one(), Cond::AnyUnit => self.is_unit(), Cond::Weight(w) => self.is_unit() && self.weight().map(|x| x <= w as f64).unwrap_or(true) } }
}

pub(crate) type Entries = std::collections::BTreeMap<(usize, usize), V>;

pub(crate) fn build_entries(c: &Case, tier: Tier) -> (usize, usize, Entries) {
    let mx = tier.pick(60usize, 250usize);
    let mut e = Entries::new();
    let mut put = |e: &mut Entries, i: usize, j: usize, v: V| { let nv = match e.get(&(i, j)) { Some(o) => o.add(&v), None => v }; if nv.is_zero() { e.remove(&(i, j)); } else { e.insert((i, j), nv); } };
    match &c.shape {
        Shape::Random { m, n, e: ents } => {
            let (m, n) = (*m as usize * mx / 255, *n as usize * mx / 255);
            if m > 0 && n > 0 { for (i, j, v) in ents { put(&mut e, *i as usize * m / 256, *j as usize * n / 256, value(c.rty, *v)); } }
            (m, n, e)
        }
        Shape::Ring { l, extra, cross, head } => {
            let l = 2 + (*l as usize % tier.pick(24, 60));
            let h = *head as usize % 6;
            let (m, n) = (h + l, h + l + 2);
            // head: staircase of units (taken by the first-left phase)
            for t in 0..h { put(&mut e, t, t, value(c.rty, 0)); if t + 1 < h { put(&mut e, t, t + 1, value(c.rty, 4)); } }
            // ring rows: leading entry is a NON-candidate (so the first-left phase skips them), then two candidates
            for k in 0..l {
                let r = h + k;
                let non_unit = match c.rty { RTy::I64 => V::I(2), RTy::Q => V::Q(1, 1), RTy::F3 => V::F(1), RTy::PolyH => V::P(vec![0, 1]) };
                // column h is shared by all ring rows and carries a non-candidate (or for fields: it is occupied early)
                put(&mut e, r, h, non_unit);
                put(&mut e, r, h + 1 + k, value(c.rty, 0));
                put(&mut e, r, h + 1 + (k + 1) % l, value(c.rty, 1));
            }
            for (i, j, v) in extra { put(&mut e, h + (*i as usize % l), *j as usize % n, value(c.rty, *v)); }
            for (i, j, v) in cross { put(&mut e, *i as usize % m, h + 1 + (*j as usize % l), value(c.rty, *v)); }
            (m, n, e)
        }
        Shape::Chain { n, closers } => {
            let nn = 1 + (*n as usize % 7000);
            let non_cand = match c.rty { RTy::I64 => V::I(2), RTy::Q => V::Q(1, 1), RTy::F3 => V::F(1), RTy::PolyH => V::P(vec![0, 1]) };
            for k in 1..=nn { put(&mut e, k - 1, k, value(c.rty, 0)); put(&mut e, k - 1, k + 1, value(c.rty, 1)); }
            let cl: Vec<&(u16, u16)> = closers.iter().take(4).collect();
            for (t, (a, b)) in cl.iter().enumerate() {
                // a: a column near the start of the chain (or anywhere, for odd a); b: the free last column nn+1 (b odd) or any column
                let a = if *a % 2 == 0 { 1 + (*a as usize / 2) % 64.min(nn) } else { 1 + *a as usize % (nn + 1) };
                let b = if *b % 2 == 1 { nn + 1 } else { 1 + *b as usize % (nn + 1) };
                put(&mut e, nn + t, 0, non_cand.clone()); put(&mut e, nn + t, a, value(c.rty, 0)); if b != a { put(&mut e, nn + t, b, value(c.rty, 1)); }
            }
            (nn + cl.len(), nn + 2, e)
        }
        Shape::Huge { groups, m_extra, n_extra, per_row, seed } => {
            let k = *groups as usize % 1500;
            let (mx, nx) = (*m_extra as usize % 400, *n_extra as usize % 3700);
            let (m, n) = (2 * k + mx, 3 * k + nx);
            let non_cand = match c.rty { RTy::I64 => V::I(2), RTy::Q => V::Q(1, 1), RTy::F3 => V::F(1), RTy::PolyH => V::P(vec![0, 1]) };
            for t in 0..k {
                put(&mut e, t, k + t, value(c.rty, 0)); put(&mut e, t, 2 * k + t, value(c.rty, 1));
                put(&mut e, k + t, t, non_cand.clone()); put(&mut e, k + t, 2 * k + t, value(c.rty, 0));
            }
            if n > 0 {
                let mut st = (*seed as u64) << 1 | 1;
                let mut rnd = || { st = st.wrapping_mul(6364136223846793005).wrapping_add(1442695040888963407); (st >> 33) as usize };
                for r in 0..mx { for _ in 0..(1 + rnd() % (1 + *per_row as usize % 5)) { let (j, v) = (rnd() % n, rnd() as u8); put(&mut e, 2 * k + r, j, value(c.rty, v)); } }
            }
            (m, n, e)
        }
    }
}

// ---- schedule control through the hooks -----------------------------------

struct Ctl {
    sched: Sched,
    waiting: Mutex<(usize, u64)>, // (waiting, generation)
    cv: Condvar,
    commits: AtomicU64,
    retries: AtomicUsize,
    par_commits: AtomicUsize,
    starts: Mutex<std::collections::HashMap<usize, u64>>,
}

static HOOK_LOCK: Mutex<()> = Mutex::new(());

fn mix(a: u64, b: u64) -> u64 { let mut x = a ^ b.wrapping_mul(0x9E3779B97F4A7C15); x ^= x >> 29; x = x.wrapping_mul(0xBF58476D1CE4E5B9); x ^ (x >> 32) }

impl Ctl {
    fn on(&self, p: Point, a: usize, b: usize) {
        match p {
            Point::Retry => { self.retries.fetch_add(1, Ordering::SeqCst); return }
            Point::AfterCommit => { self.commits.fetch_add(1, Ordering::SeqCst); self.par_commits.fetch_add(1, Ordering::SeqCst); return } // under the write lock: never wait here
            _ => {}
        }
        match self.sched {
            Sched::Free => {}
            Sched::Barrier(g) => if p == Point::BeforeLock {
                let g = (g as usize).max(2);
                let mut st = self.waiting.lock().unwrap();
                st.0 += 1;
                if st.0 >= g { st.0 = 0; st.1 += 1; self.cv.notify_all(); }
                else {
                    let gen = st.1;
                    let deadline = Instant::now() + Duration::from_micros(1500);
                    while st.1 == gen {
                        let now = Instant::now();
                        if now >= deadline { st.0 = 0; st.1 += 1; self.cv.notify_all(); break }
                        st = self.cv.wait_timeout(st, deadline - now).unwrap().0;
                    }
                }
            },
            Sched::Delay(seed, max_us) => {
                let code = match p { Point::TaskStart => 1u64, Point::BeforeLock => 2, Point::TaskEnd => 3, _ => 4 };
                let us = mix(seed as u64, (a as u64) << 20 | (b as u64) << 4 | code) % (max_us as u64 + 1);
                let t = Instant::now(); while t.elapsed() < Duration::from_micros(us) { std::hint::spin_loop(); }
            }
            Sched::Stagger => match p {
                Point::TaskStart => { self.starts.lock().unwrap().insert(a, self.commits.load(Ordering::SeqCst)); }
                Point::BeforeLock => {
                    // hold the task until somebody else has committed since its snapshot (stale snapshot), at most 1 ms
                    let c0 = self.starts.lock().unwrap().get(&a).cloned().unwrap_or(0);
                    let t = Instant::now();
                    while self.commits.load(Ordering::SeqCst) <= c0 && t.elapsed() < Duration::from_micros(300 + (mix(a as u64, b as u64) % 700)) { std::hint::spin_loop(); }
                }
                _ => {}
            },
        }
    }
}

struct Run { pivs: Result<Vec<(usize, usize)>, String>, retries: usize, par_commits: usize }

fn run_lib<R>(a: &SpMat<R>, pt: PivotType, pc: PivotCondition, threads: usize, sched: Sched) -> Run
where R: yui::Ring, for<'x> &'x R: yui::RingOps<R> {
    let _g = HOOK_LOCK.lock().unwrap_or_else(|e| e.into_inner());
    let ctl = Arc::new(Ctl { sched, waiting: Mutex::new((0, 0)), cv: Condvar::new(), commits: AtomicU64::new(0), retries: AtomicUsize::new(0), par_commits: AtomicUsize::new(0), starts: Mutex::new(Default::default()) });
    let c2 = ctl.clone();
    verif_hooks::set(Arc::new(move |p, x, y| c2.on(p, x, y)));
    let pivs = with_threads(threads, || guard(|| find_pivots(a, pt, pc)));
    verif_hooks::clear();
    Run { pivs, retries: ctl.retries.load(Ordering::SeqCst), par_commits: ctl.par_commits.load(Ordering::SeqCst) }
}

/// run `f` on a pool with `threads` workers under the schedule strategy `sched` (hooks installed for the duration);
/// returns (result, retries, parallel commits).  Calls are serialised process-wide.
pub fn with_schedule<T: Send>(threads: usize, sched: Sched, f: impl FnOnce() -> T + Send) -> (T, usize, usize) {
    let _g = HOOK_LOCK.lock().unwrap_or_else(|e| e.into_inner());
    let ctl = Arc::new(Ctl { sched, waiting: Mutex::new((0, 0)), cv: Condvar::new(), commits: AtomicU64::new(0), retries: AtomicUsize::new(0), par_commits: AtomicUsize::new(0), starts: Mutex::new(Default::default()) });
    let c2 = ctl.clone();
    verif_hooks::set(Arc::new(move |p, x, y| c2.on(p, x, y)));
    let r = with_threads(threads, f);
    verif_hooks::clear();
    (r, ctl.retries.load(Ordering::SeqCst), ctl.par_commits.load(Ordering::SeqCst))
}

pub fn sched_strategy() -> BoxedStrategy<Sched> {
    prop_oneof![2 => Just(Sched::Free), 4 => (2u8..=16).prop_map(Sched::Barrier), 2 => (any::<u32>(), 1u16..300).prop_map(|(s, m)| Sched::Delay(s, m)), 2 => Just(Sched::Stagger)].boxed()
}

fn to_sp<R>(m: usize, n: usize, e: &Entries, conv: impl Fn(&V) -> R) -> SpMat<R> where R: yui::Ring, for<'x> &'x R: yui::RingOps<R> {
    SpMat::from_entries((m, n), e.iter().map(|((i, j), v)| (*i, *j, conv(v))))
}

fn check(c: &Case, m: usize, n: usize, e: &Entries, run: &Run) -> Chk<Pass> {
    let what = format!("{:?} {:?} threads={} sched={:?} {}x{} matrix with {} entries", if c.cols { "Cols" } else { "Rows" }, c.cond, c.threads, c.sched, m, n, e.len());
    let pivs = match &run.pivs { Ok(p) => p, Err(msg) => return bad(format!("{what}: find_pivots panicked: {msg}")) };
    let (mut rows, mut cols) = (BTreeSet::new(), BTreeSet::new());
    for (i, j) in pivs {
        ensure!(*i < m && *j < n, "{what}: pivot ({i},{j}) outside the matrix");
        ensure!(rows.insert(*i), "{what}: row {i} used by two pivots: {:?}", pivs);
        ensure!(cols.insert(*j), "{what}: column {j} used by two pivots: {:?}", pivs);
        let Some(v) = e.get(&(*i, *j)) else { return bad(format!("{what}: pivot ({i},{j}) is a zero entry")) };
        ensure!(v.satisfies(c.cond), "{what}: pivot entry ({i},{j}) = {:?} does not satisfy {:?}", v, c.cond);
    }
    // triangular after permutation: position of pivot k is (k,k); Rows -> upper, Cols -> lower.  Every non-zero entry whose row
    // and column both carry a pivot sits at (row position, column position) of the leading block
    let row_pos: std::collections::HashMap<usize, usize> = pivs.iter().enumerate().map(|(k, p)| (p.0, k)).collect();
    let col_pos: std::collections::HashMap<usize, usize> = pivs.iter().enumerate().map(|(k, p)| (p.1, k)).collect();
    for ((i, j), _) in e.iter() {
        let (Some(&k), Some(&l)) = (row_pos.get(i), col_pos.get(j)) else { continue };
        if k == l { continue }
        let below = k > l;
        if (below && !c.cols) || (!below && c.cols) {
            return bad(format!("{what}: leading block not {} triangular: entry at permuted position ({k},{l}) = original ({i},{j}) is non-zero; pivots {:?}", if c.cols { "lower" } else { "upper" }, &pivs[..pivs.len().min(60)]))
        }
    }
    Ok(Pass::new().nt(run.par_commits >= 2 && run.retries >= 1)
        .label(format!("sched:{}", match c.sched { Sched::Free => "free", Sched::Barrier(_) => "barrier", Sched::Delay(..) => "delay", Sched::Stagger => "stagger" }))
        .label(format!("ring:{:?}", c.rty)).label_if(run.retries >= 1, "retry>=1").label_if(run.par_commits >= 2, "parallel-commits>=2")
        .label_if(matches!(c.shape, Shape::Ring { .. }), "conflict-rich").label_if(matches!(c.shape, Shape::Huge { .. }), "huge-sparse").label_if(matches!(c.shape, Shape::Chain { .. }), "long-chain").label_if(n >= 4096 || m >= 4096, "dimension>=4096").label_if(pivs.is_empty(), "no-pivot"))
}

fn run_case(c: &Case, tier: Tier) -> Chk<Pass> {
    let (m, n, e) = build_entries(c, tier);
    let threads = [1usize, 2, 3, 4, 8, 16][c.threads as usize % 6];
    let pt = if c.cols { PivotType::Cols } else { PivotType::Rows };
    let pc = match c.cond { Cond::One => PivotCondition::One, Cond::AnyUnit => PivotCondition::AnyUnit, Cond::Weight(w) => PivotCondition::Weight(w as f64) };
    // Cols type works on the transpose: build the matrix so that the *pivot search* sees the generated structure
    let (mm, nn, ee): (usize, usize, Entries) = if c.cols { (n, m, e.iter().map(|((i, j), v)| ((*j, *i), v.clone())).collect()) } else { (m, n, e) };
    let run = match c.rty {
        RTy::I64 => { let a: SpMat<i64> = to_sp(mm, nn, &ee, |v| match v { V::I(x) => *x, _ => unreachable!() }); run_lib(&a, pt, pc, threads, c.sched) }
        RTy::Q => { let a: SpMat<Ratio<i64>> = to_sp(mm, nn, &ee, |v| match v { V::Q(x, y) => Ratio::new(*x, *y), _ => unreachable!() }); run_lib(&a, pt, pc, threads, c.sched) }
        RTy::F3 => { let a: SpMat<FF<3>> = to_sp(mm, nn, &ee, |v| match v { V::F(x) => FF::<3>::new(*x), _ => unreachable!() }); run_lib(&a, pt, pc, threads, c.sched) }
        RTy::PolyH => { let a: SpMat<Poly<'H', i64>> = to_sp(mm, nn, &ee, |v| match v { V::P(cs) => Poly::from_iter(cs.iter().enumerate().map(|(i, x)| (Poly::<'H', i64>::mono(i), *x))), _ => unreachable!() }); run_lib(&a, pt, pc, threads, c.sched) }
    };
    let mut c2 = c.clone(); c2.threads = threads as u8;
    check(&c2, mm, nn, &ee, &run)
}

impl Prop for C11 {
    type Case = Case;
    const ID: &'static str = "C11";
    fn rule() -> String {
        "case = (ring in {i64, Ratio<i64>, FF<3>, Poly<'H',i64>}, sparse matrix: random (m,n up to 60 (250 thorough), 0..400 entries from units and non-units) or conflict-rich (a staircase head plus L rows whose two candidate columns collide pairwise, plus noise) or, one case in 29, huge and very sparse (up to 3400 x 8200: independent 2 x 3 blocks whose second row reaches the cycle-free search, plus pseudo-random sparse rows; or a bidiagonal chain of up to 7000 rows with a few rows that would close a cycle through it), pivot type Rows/Cols, condition One/AnyUnit/Weight(w), threads in {1,2,3,4,8,16}, \
         schedule strategy installed through the verif-hooks points: Free, Barrier(g) (tasks wait before the write lock until g have arrived or 1.5 ms passed), Delay(seed, max us) (pseudo-random spin per (row, point, attempt)), Stagger (a task is held before the write lock until another task has committed since its snapshot)). \
         oracle: no panic; pivots have pairwise distinct rows and columns; every pivot entry satisfies the condition (reference predicates); reading the original entries through the pivot order, the leading r x r block is upper (Rows) / lower (Cols) triangular. \
         non-trivial = the parallel phase committed >= 2 pivots and at least one validate-or-retry round failed validation (counted through the hooks)".into()
    }
    fn assumptions() -> Vec<String> { vec![
        "schedules are sampled, not enumerated; rayon assigns rows to workers".into(),
        "library calls are serialised (one find_pivots at a time) because the hook callback is process-wide".into(),
        "Weight(w): weight is the documented c_weight for Z (|x|) and Q (max(|num|,|den|)); for other rings only unit-ness is asserted".into() ] }
    fn strategy(tier: Tier) -> BoxedStrategy<Case> {
        let ne = tier.pick(400usize, 2500usize);
        let ents = move |k: usize| prop::collection::vec((any::<u8>(), any::<u8>(), any::<u8>()), 0..k);
        let random = (any::<u8>(), any::<u8>(), ents(ne)).prop_map(|(m, n, e)| Shape::Random { m, n, e });
        let ring = (any::<u8>(), ents(40), ents(40), any::<u8>()).prop_map(|(l, extra, cross, head)| Shape::Ring { l, extra, cross, head });
        let sched = prop_oneof![2 => Just(Sched::Free), 4 => (2u8..=16).prop_map(Sched::Barrier), 2 => (any::<u32>(), 1u16..300).prop_map(|(s, m)| Sched::Delay(s, m)), 2 => Just(Sched::Stagger)];
        let cond = prop_oneof![3 => Just(Cond::One), 3 => Just(Cond::AnyUnit), 2 => (1u8..6).prop_map(Cond::Weight)];
        (prop::sample::select(vec![RTy::I64, RTy::I64, RTy::Q, RTy::F3, RTy::PolyH]), prop_oneof![24 => random, 32 => ring, 2 => (any::<u16>(), any::<u16>(), any::<u16>(), any::<u8>(), any::<u32>()).prop_map(|(groups, m_extra, n_extra, per_row, seed)| Shape::Huge { groups, m_extra, n_extra, per_row, seed }),
            1 => (prop_oneof![1 => any::<u16>(), 1 => 4000u16..7000], prop::collection::vec((any::<u16>(), prop_oneof![1 => any::<u16>(), 1 => Just(u16::MAX)]), 0..4)).prop_map(|(n, closers)| Shape::Chain { n, closers })], any::<bool>(), cond, prop_oneof![1 => Just(0u8), 1 => Just(1u8), 2 => Just(3u8), 3 => Just(4u8), 3 => Just(5u8)], sched)
            .prop_map(|(rty, shape, cols, cond, threads, sched)| Case { rty, shape, cols, cond, threads, sched }).boxed()
    }
    fn cases(tier: Tier) -> u32 { tier.pick(12_000, 100_000) }
    fn shards(_: Tier) -> usize { 4 }
    fn replay_repeats() -> usize { 200 }
    fn run(case: &Case, ctx: &Ctx) -> Outcome { to_outcome(run_case(case, ctx.tier)) }
}
