//! C09 Smith normal form: D = P A Q, diagonal divisibility chain, true inverses.

use num_bigint::BigInt;
use num_integer::Integer;
use num_traits::{Signed, Zero};
use proptest::prelude::*;
use serde::{Deserialize, Serialize};
use yui_matrix::dense::snf::snf;
use yui_matrix::dense::Mat;

use crate::engine::*;
use crate::ensure;
use crate::kit::matgen::*;
use crate::kit::refalg::*;
use crate::kit::refmat::*;
use crate::kit::sc::*;

pub struct C09;

#[derive(Clone, Debug, Serialize, Deserialize)]
pub struct Case { pub ty: Ty, pub spec: MatSpec, pub flags: [bool; 4] }

pub const TYPES: &[Ty] = &[Ty::I64, Ty::I128, Ty::Big, Ty::Big, Ty::GI64, Ty::GBig, Ty::EI64, Ty::EBig, Ty::QI64, Ty::QBig, Ty::F2, Ty::FF3, Ty::FF5, Ty::FF7, Ty::PQBig, Ty::PF3];

pub fn maxdim(tier: Tier) -> usize { tier.pick(6, 9) }

fn lib<T: Sc, R>(what: &str, f: impl FnOnce() -> R) -> Chk<R> {
    match guard(f) {
        Ok(v) => Ok(v),
        Err(m) => if T::machine() && is_arith_overflow(&m) { discard("machine-overflow") } else { bad(format!("{what}: panicked: {m}")) },
    }
}

/// gcd of all k x k minors over Z (for sizes where that is cheap)
fn det_divisors_z(a: &RM) -> Option<Vec<BigInt>> {
    if a.k != RK::Z || a.m > 4 || a.n > 4 { return None }
    let r = a.m.min(a.n);
    let mut out = vec![];
    fn combos(n: usize, k: usize) -> Vec<Vec<usize>> {
        if k == 0 { return vec![vec![]] }
        let mut r = vec![];
        for c in combos(n, k - 1) { let s = c.last().map(|x| x + 1).unwrap_or(0); for i in s..n { let mut d = c.clone(); d.push(i); r.push(d); } }
        r
    }
    for k in 1..=r {
        let mut g = BigInt::zero();
        for rows in combos(a.m, k) { for cols in combos(a.n, k) {
            let sub = RM::from_fn(RK::Z, k, k, |i, j| a.a[rows[i]][cols[j]].clone());
            if let RV::Z(d) = sub.det() { g = g.gcd(&d); }
        } }
        out.push(g);
    }
    Some(out)
}

struct Res { d: RM, p: Option<RM>, pinv: Option<RM>, q: Option<RM>, qinv: Option<RM>, rank: usize, factors: Vec<RV> }

fn call_snf<T>(a: &RM, flags: [bool; 4]) -> Chk<Res> where T: Sc + yui::EucRing, for<'x> &'x T: yui::EucRingOps<T> {
    let Some(am): Option<Mat<T>> = rm_to_mat(a) else { return discard("unrepresentable-operand") };
    let what = format!("snf of {} with flags {:?}", a.show(), flags);
    let r = lib::<T, _>(&what, || snf(&am, flags))?;
    let conv = |m: Option<&Mat<T>>| m.map(mat_to_rm);
    let (p, pinv, q, qinv) = (conv(r.p()), conv(r.pinv()), conv(r.q()), conv(r.qinv()));
    for (i, (x, f)) in [&p, &pinv, &q, &qinv].iter().zip(flags.iter()).enumerate() {
        ensure!(x.is_some() == *f, "{what}: transform #{i} {} although its flag is {f}", if x.is_some() { "returned" } else { "missing" });
    }
    Ok(Res { d: mat_to_rm(r.result()), p, pinv, q, qinv, rank: r.rank(), factors: r.factors().into_iter().map(|x| x.to_rv()).collect() })
}

fn check_diag(k: &RK, a: &RM, d: &RM, what: &str) -> Chk<Vec<RV>> {
    ensure!(d.shape() == a.shape(), "{what}: result shape {:?} != input shape {:?}", d.shape(), a.shape());
    for i in 0..d.m { for j in 0..d.n { if i != j { ensure!(k.is_zero(&d.a[i][j]), "{what}: result not diagonal at ({i},{j}): {}", d.show()); } } }
    let r = d.m.min(d.n);
    let diag: Vec<RV> = (0..r).map(|i| d.a[i][i].clone()).collect();
    let rank = diag.iter().take_while(|x| !k.is_zero(x)).count();
    ensure!(diag[rank..].iter().all(|x| k.is_zero(x)), "{what}: non-zero diagonal entries do not come first: {}", d.show());
    for i in 0..rank {
        ensure!(k.is_normal(&diag[i]), "{what}: diagonal entry #{i} = {:?} is not normalised", SV::of(&diag[i]));
        if i + 1 < rank { ensure!(k.divides(&diag[i], &diag[i + 1]), "{what}: d_{i} = {:?} does not divide d_{} = {:?}", SV::of(&diag[i]), i + 1, SV::of(&diag[i + 1])); }
    }
    Ok(diag[..rank].to_vec())
}

fn run_ty<T>(c: &Case, tier: Tier) -> Chk<Pass> where T: Sc + yui::EucRing, for<'x> &'x T: yui::EucRingOps<T> {
    let k = T::rk();
    let b = build(k, c.ty.machine_bits(), &c.spec, maxdim(tier));
    let a = &b.a;
    let what = format!("[{}] A = {}", k.name(), a.show());
    let what = if what.len() > 1500 { format!("{}...", &what[..1500]) } else { what };

    // ---- all flags: full certificate
    let full = call_snf::<T>(a, [true; 4])?;
    let diag = check_diag(&k, a, &full.d, &what)?;
    let (p, pinv, q, qinv) = (full.p.as_ref().unwrap(), full.pinv.as_ref().unwrap(), full.q.as_ref().unwrap(), full.qinv.as_ref().unwrap());
    ensure!(p.shape() == (a.m, a.m) && pinv.shape() == (a.m, a.m) && q.shape() == (a.n, a.n) && qinv.shape() == (a.n, a.n), "{what}: transform shapes");
    ensure!(p.mul(a).mul(q) == full.d, "{what}: D != P A Q  (D = {}, P = {}, Q = {})", full.d.show(), p.show(), q.show());
    ensure!(p.mul(pinv).is_id() && pinv.mul(p).is_id(), "{what}: P P^-1 != I  (P = {}, P^-1 = {})", p.show(), pinv.show());
    ensure!(q.mul(qinv).is_id() && qinv.mul(q).is_id(), "{what}: Q Q^-1 != I  (Q = {}, Q^-1 = {})", q.show(), qinv.show());
    ensure!(full.rank == diag.len(), "{what}: rank() = {} but the diagonal has {} non-zero entries", full.rank, diag.len());
    ensure!(full.factors == diag, "{what}: factors() differs from the diagonal");
    // planted answer
    if let Some(pl) = &b.planted {
        let nzp: Vec<&RV> = pl.iter().filter(|x| !k.is_zero(x)).collect();
        ensure!(diag.len() == nzp.len(), "{what}: rank {} but {} non-zero factors were planted", diag.len(), nzp.len());
        if b.planted_chain && pl.iter().take_while(|x| !k.is_zero(x)).count() == nzp.len() {
            for (i, (g, w)) in diag.iter().zip(nzp.iter()).enumerate() {
                ensure!(k.associates(g, w), "{what}: invariant factor #{i} = {:?}, planted {:?}", SV::of(g), SV::of(w));
            }
        }
    }
    // gcds of minors (Z, small)
    if let Some(dd) = det_divisors_z(a) {
        let mut prod = BigInt::from(1);
        for (i, g) in diag.iter().enumerate() {
            let RV::Z(g) = g else { unreachable!() };
            prod *= g;
            ensure!(prod.abs() == dd[i].abs(), "{what}: d_1..d_{} = {} but the gcd of the {}x{} minors is {}", i + 1, prod, i + 1, i + 1, dd[i]);
        }
        for j in diag.len()..dd.len() { ensure!(dd[j].is_zero(), "{what}: rank {} but a non-zero {}x{} minor exists", diag.len(), j + 1, j + 1); }
    }

    // ---- the requested flag subset
    if c.flags != [true; 4] {
        let w2 = format!("{what} flags {:?}", c.flags);
        let sub = call_snf::<T>(a, c.flags)?;
        let d2 = check_diag(&k, a, &sub.d, &w2)?;
        ensure!(d2.len() == diag.len() && d2.iter().zip(diag.iter()).all(|(x, y)| k.associates(x, y)), "{w2}: diagonal {} differs from the all-flags diagonal {}", sub.d.show(), full.d.show());
        if let (Some(p), Some(pi)) = (&sub.p, &sub.pinv) { ensure!(p.mul(pi).is_id() && pi.mul(p).is_id(), "{w2}: P P^-1 != I"); }
        if let (Some(q), Some(qi)) = (&sub.q, &sub.qinv) { ensure!(q.mul(qi).is_id() && qi.mul(q).is_id(), "{w2}: Q Q^-1 != I"); }
        match (&sub.p, &sub.pinv, &sub.q, &sub.qinv) {
            (Some(p), _, Some(q), _) => ensure!(p.mul(a).mul(q) == sub.d, "{w2}: D != P A Q"),
            _ => {}
        }
        if let (Some(pi), Some(qi)) = (&sub.pinv, &sub.qinv) { ensure!(pi.mul(&sub.d).mul(qi) == *a, "{w2}: A != P^-1 D Q^-1  (P^-1 = {}, D = {}, Q^-1 = {})", pi.show(), sub.d.show(), qi.show()); }
        if let (Some(p), Some(qi)) = (&sub.p, &sub.qinv) { ensure!(p.mul(a) == sub.d.mul(qi), "{w2}: P A != D Q^-1"); }
        if let (Some(pi), Some(q)) = (&sub.pinv, &sub.q) { ensure!(a.mul(q) == pi.mul(&sub.d), "{w2}: A Q != P^-1 D"); }
        // a single transform must at least be invertible over the ring when its partner is known from the full run... (not asserted: transforms are not unique)
    }

    let big = a.a.iter().flatten().any(|x| match x { RV::Z(z) => z.bits() > 53, RV::Quad(p, q) => p.bits() > 53 || q.bits() > 53, RV::Q(q) => q.numer().bits() > 53, _ => false });
    let nonunit = diag.iter().any(|x| !k.is_unit(x));
    let zero_dim = a.m == 0 || a.n == 0;
    Ok(Pass::new().nt((diag.len() >= 2 && nonunit) || zero_dim || big)
        .label(format!("ty:{:?}", c.ty)).label_if(big, "beyond-2^53").label_if(zero_dim, "zero-dimension").label_if(nonunit, "non-unit-factor")
        .label_if(diag.len() < a.m.min(a.n), "rank-deficient").label_if(c.flags != [true; 4], "flag-subset"))
}

fn run_c09<T>(c: &Case, tier: Tier) -> Chk<Pass> where T: Sc + yui::EucRing, for<'x> &'x T: yui::EucRingOps<T> {
    match guard(|| run_ty::<T>(c, tier)) {
        Ok(r) => r,
        Err(m) => if T::machine() && is_arith_overflow(&m) { discard("machine-overflow") } else { bad(format!("panicked: {m}")) },
    }
}

fn run_case(c: &Case, tier: Tier) -> Chk<Pass> { if !TYPES.contains(&c.ty) { return discard("out-of-domain") } crate::dispatch_euc!(c.ty, run_c09(c, tier)) }

impl Prop for C09 {
    type Case = Case;
    const ID: &'static str = "C09";
    fn rule() -> String {
        "case = (ring type among i64, i128, BigInt, Gauss/Eisenstein over i64 and BigInt, Ratio<i64>, Ratio<BigInt>, F2, F3, F5, F7, Q[x], F3[x]; matrix m x n with m,n in 0..6 (9 thorough), either planted U D V (known diagonal, optionally a divisibility chain, random elementary row/column operations) or random with zeros; entries small / medium / beyond 2^53 up to hundreds of digits; a subset of the four transform flags). \
         all-flags run: D = P A Q, P P^-1 = I, Q Q^-1 = I (reference products), D diagonal, non-zeros first, normalised, d_k | d_k+1, rank()/factors() consistent, planted chain recovered up to associates, gcds of k x k minors (Z, sizes <= 4); subset run: diagonal equal up to associates, every available equation among D = PAQ, A = P^-1 D Q^-1, P A = D Q^-1, A Q = P^-1 D, P P^-1 = I, Q Q^-1 = I. \
         non-trivial = rank >= 2 with a non-unit invariant factor, or a zero dimension, or an entry beyond 2^53".into()
    }
    fn assumptions() -> Vec<String> { vec!["arithmetic-overflow panics of machine-integer instantiations are discards; BigInt-based rings must not panic".into()] }
    fn strategy(tier: Tier) -> BoxedStrategy<Case> {
        let md = maxdim(tier) as u8;
        (prop::sample::select(TYPES.to_vec()), prop_oneof![2 => Just([true; 4]), 3 => any::<[bool; 4]>()]).prop_flat_map(move |(ty, flags)| {
            (Just(ty), mat_spec(ty, tier, md), Just(flags)).prop_map(|(ty, spec, flags)| Case { ty, spec, flags })
        }).boxed()
    }
    fn cases(tier: Tier) -> u32 { tier.pick(200_000, 600_000) }
    fn shards(_: Tier) -> usize { 16 }
    fn fuzz_in_domain(c: &Case) -> bool { let (bits, deg) = c.spec.size(); bits <= 700 && deg <= 4 }
    fn run(case: &Case, ctx: &Ctx) -> Outcome { to_outcome(run_case(case, ctx.tier)) }
}
