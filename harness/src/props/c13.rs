//! C13 Sparse and dense matrix containers implement ordinary matrix algebra; Trans composes.
//! Stateful: a register file of SpMat / SpVec / Mat / Trans values, each shadowed by a dense
//! reference matrix (kit::refmat), compared after every operation.

use proptest::prelude::*;
use serde::{Deserialize, Serialize};
use sprs::PermOwned;
use yui::{Ratio, FF};
use yui_matrix::dense::Mat;
use yui_matrix::sparse::{SpMat, SpVec, Trans};
use yui_matrix::MatTrait;

use crate::engine::*;
use crate::ensure;
use crate::kit::refalg::*;
use crate::kit::refmat::*;
use crate::kit::sc::Sc;

pub struct C13;

#[derive(Clone, Copy, Debug, Serialize, Deserialize, PartialEq)]
pub enum RTy { I64, Q, F3, Big }

/// matrix literal: shape and entries (positions are reduced mod the shape; values small)
#[derive(Clone, Debug, Serialize, Deserialize)]
pub struct Lit { pub m: u8, pub n: u8, pub e: Vec<(u8, u8, i8)>, pub how: u8 }

#[derive(Clone, Debug, Serialize, Deserialize)]
pub enum Src { Reg(u8), Lit(Lit) }

#[derive(Clone, Debug, Serialize, Deserialize)]
pub enum Op {
    New(Lit),
    Add(u8, Src, u8), Sub(u8, Src, u8), Mul(u8, Src, u8),
    SubSelf(u8), Neg(u8, bool), Transpose(u8),
    Permute(u8, u32, u32, u8),
    Submat(u8, u16, u16, u16, u16, u8),
    Divide4(u8, u16, u16),
    Concat(u8, Src), Stack(u8, Src), ExtendCols(u8, Src),
    ColVecs(u8),
    DenseRoundTrip(u8),
    MulVec(u8, Lit, u8),
    VecOps(Lit, Lit, u16, u32),
    DenseOps(u8, Vec<(u8, u8, u8, i8, i8)>),
    Trans(Vec<TOp>, Lit),
}

#[derive(Clone, Debug, Serialize, Deserialize)]
pub enum TOp { Append(Lit, Lit), AppendPerm(u32), Merge(Vec<(Lit, Lit)>), Reduce, Sub(Vec<u8>), AppendId, AppendZero, AppendDiag01(u8) }

#[derive(Clone, Debug, Serialize, Deserialize)]
pub struct Case { pub rty: RTy, pub ops: Vec<Op> }

trait YR: Sc + yui::Ring where for<'a> &'a Self: yui::RingOps<Self> {}
impl<T> YR for T where T: Sc + yui::Ring, for<'a> &'a T: yui::RingOps<T> {}

fn val<R: Sc>(x: i8) -> R { R::from_rv(&R::rk().from_i64(x as i64)).unwrap() }
fn rval(k: &RK, x: i8) -> RV { k.from_i64(x as i64) }

fn lit_model(k: RK, l: &Lit, m: usize, n: usize) -> RM {
    let mut r = RM::zero(k, m, n);
    if m == 0 || n == 0 { return r }
    for (i, j, x) in &l.e { let (i, j) = (*i as usize % m, *j as usize % n); r.a[i][j] = k.add(&r.a[i][j], &rval(&k, *x)); }
    r
}

/// build a sparse matrix from a literal in one of several ways (duplicates, zeros, explicit stored zeros)
fn lit_sp<R>(l: &Lit, m: usize, n: usize) -> SpMat<R> where R: Sc + yui::Ring, for<'a> &'a R: yui::RingOps<R> {
    let k = R::rk();
    let ents: Vec<(usize, usize, R)> = if m == 0 || n == 0 { vec![] } else { l.e.iter().map(|(i, j, x)| (*i as usize % m, *j as usize % n, val::<R>(*x))).collect() };
    match l.how % 4 {
        0 => SpMat::from_entries((m, n), ents),               // duplicates summed, zeros skipped
        1 => { let mo = lit_model(k, l, m, n); SpMat::from_dense_data((m, n), (0..m * n).map(|t| R::from_rv(&mo.a[t / n][t % n]).unwrap())) }
        2 => { // from_col_vecs with from_sorted_entries: keeps explicit zeros
            let mo = lit_model(k, l, m, n);
            let cols = (0..n).map(|j| {
                let touched: std::collections::BTreeSet<usize> = if m == 0 { Default::default() } else { l.e.iter().filter(|(_, jj, _)| *jj as usize % n == j).map(|(i, _, _)| *i as usize % m).collect() };
                SpVec::from_sorted_entries(m, touched.into_iter().map(|i| (i, R::from_rv(&mo.a[i][j]).unwrap())))
            });
            SpMat::from_col_vecs(m, cols)
        }
        _ => { let mo = lit_model(k, l, m, n); let d: Mat<R> = rm_to_mat(&mo).unwrap(); SpMat::from(d) }
    }
}

pub fn perm_of(seed: u32, n: usize) -> Vec<usize> {
    // deterministic permutation from a seed (Fisher-Yates with an LCG)
    let mut p: Vec<usize> = (0..n).collect();
    let mut s = seed as u64 | 1;
    for i in (1..n).rev() { s = s.wrapping_mul(6364136223846793005).wrapping_add(1442695040888963407); let j = (s >> 33) as usize % (i + 1); p.swap(i, j); }
    p
}

fn frac(x: u16, n: usize) -> usize { ((x as usize) * (n + 1)) >> 16 }

struct Regs<R> where R: Sc + yui::Ring, for<'a> &'a R: yui::RingOps<R> { v: Vec<(SpMat<R>, RM)>, stored_zero_used: bool, zero_dim_used: bool }

fn same_sp<R>(a: &SpMat<R>, m: &RM, what: &str) -> Chk where R: Sc + yui::Ring, for<'a> &'a R: yui::RingOps<R> {
    ensure!(a.shape() == m.shape(), "{what}: shape {:?} != model {:?}", a.shape(), m.shape());
    let got = match sp_to_rm(a) { Ok(g) => g, Err(e) => return bad(format!("{what}: {e}")) };
    ensure!(got == *m, "{what}: entries {} != model {}", got.show(), m.show());
    ensure!(a.is_zero() == m.is_zero(), "{what}: is_zero() = {}", a.is_zero());
    Ok(())
}
fn same_vec<R>(a: &SpVec<R>, m: &RM, what: &str) -> Chk where R: Sc + yui::Ring, for<'a> &'a R: yui::RingOps<R> {
    ensure!(a.dim() == m.m, "{what}: dim {} != model {}", a.dim(), m.m);
    let got = match spvec_to_rm(a) { Ok(g) => g, Err(e) => return bad(format!("{what}: {e}")) };
    ensure!(got == *m, "{what}: entries {} != model {}", got.show(), m.show());
    let d = a.to_dense();
    for i in 0..m.m { ensure!(d[i].to_rv() == m.a[i][0], "{what}: to_dense()[{i}]"); }
    Ok(())
}
fn same_mat<R>(a: &Mat<R>, m: &RM, what: &str) -> Chk where R: Sc + yui::Ring, for<'a> &'a R: yui::RingOps<R> {
    ensure!(a.shape() == m.shape(), "{what}: shape {:?} != model {:?}", a.shape(), m.shape());
    let got = mat_to_rm(a);
    ensure!(got == *m, "{what}: entries {} != model {}", got.show(), m.show());
    Ok(())
}

fn has_stored_zero<R>(a: &SpMat<R>) -> bool where R: Sc + yui::Ring, for<'a> &'a R: yui::RingOps<R> { a.iter().any(|(_, _, x)| x.is_zero()) }

/// `machine`: the ring is built on i64, where an arithmetic-overflow panic is a discard (generated values are small enough
/// never to overflow; byte-decoded (fuzz) cases can repeat a row operation often enough to do so)
thread_local! { static MACHINE: std::cell::Cell<bool> = const { std::cell::Cell::new(false) }; }
fn call<T>(what: &str, f: impl FnOnce() -> T) -> Chk<T> { let machine = MACHINE.with(|m| m.get()); match guard(f) { Ok(v) => Ok(v), Err(m) => if machine && is_arith_overflow(&m) { discard("machine-overflow") } else { bad(format!("{what}: valid operation panicked: {m}")) } } }

fn run_ty<R>(c: &Case) -> Chk<Pass> where R: Sc + yui::Ring, for<'a> &'a R: yui::RingOps<R> {
    let k = R::rk();
    MACHINE.with(|m| m.set(R::machine()));
    let mut regs: Regs<R> = Regs { v: vec![], stored_zero_used: false, zero_dim_used: false };
    let mut pass = Pass::new();
    let mut trans_nt = false;
    let dims = |l: &Lit| (l.m as usize % 7, l.n as usize % 7);

    macro_rules! reg { ($i:expr) => {{ if regs.v.is_empty() { continue } let idx = ($i as usize) % regs.v.len(); idx }} }
    // fetch an operand of the requested shape: a register if one fits (searching from the index), else the literal
    macro_rules! operand { ($src:expr, $m:expr, $n:expr) => {{
        let (m, n): (Option<usize>, Option<usize>) = ($m, $n);
        let fits = |s: (usize, usize)| m.map(|x| x == s.0).unwrap_or(true) && n.map(|x| x == s.1).unwrap_or(true);
        let mut found = None;
        if let Src::Reg(i) = $src { if !regs.v.is_empty() { let st = *i as usize % regs.v.len();
            for t in 0..regs.v.len() { let j = (st + t) % regs.v.len(); if fits(regs.v[j].1.shape()) { found = Some(j); break } } } }
        match found {
            Some(j) => regs.v[j].clone(),
            None => { let l = match $src { Src::Lit(l) => l.clone(), Src::Reg(i) => Lit { m: *i, n: i.wrapping_mul(3), e: vec![(*i, 1, 1), (2, *i, -1), (*i, *i, 2)], how: *i } };
                let (lm, ln) = dims(&l); let (mm, nn) = (m.unwrap_or(lm), n.unwrap_or(ln));
                (lit_sp::<R>(&l, mm, nn), lit_model(k, &l, mm, nn)) }
        }
    }} }
    macro_rules! push { ($a:expr, $m:expr, $what:expr) => {{
        let (a, m): (SpMat<R>, RM) = ($a, $m);
        same_sp(&a, &m, $what)?;
        if regs.v.len() >= 6 { regs.v.remove(0); }
        regs.v.push((a, m));
    }} }
    macro_rules! note_use { ($a:expr) => {{ if has_stored_zero(&$a.0) { regs.stored_zero_used = true; } if $a.1.m == 0 || $a.1.n == 0 { regs.zero_dim_used = true; } }} }

    for (t, op) in c.ops.iter().enumerate() {
        let what = format!("op #{t} {:?}", op);
        let what = if what.len() > 300 { format!("{}...", &what[..300]) } else { what };
        match op {
            Op::New(l) => { let (m, n) = dims(l); let a = call(&what, || lit_sp::<R>(l, m, n))?; push!(a, lit_model(k, l, m, n), &what); }
            Op::Add(i, s, form) | Op::Sub(i, s, form) | Op::Mul(i, s, form) => {
                let i = reg!(*i); let a = regs.v[i].clone();
                let b = match op { Op::Mul(..) => operand!(s, Some(a.1.n), None), _ => operand!(s, Some(a.1.m), Some(a.1.n)) };
                note_use!(a); note_use!(b);
                let (x, y) = (&a.0, &b.0);
                let r = call(&what, || match (op, form % 4) {
                    (Op::Add(..), 0) => x + y, (Op::Add(..), 1) => x.clone() + y.clone(), (Op::Add(..), 2) => x.clone() + y, (Op::Add(..), _) => x + y.clone(),
                    (Op::Sub(..), 0) => x - y, (Op::Sub(..), 1) => x.clone() - y.clone(), (Op::Sub(..), 2) => x.clone() - y, (Op::Sub(..), _) => x - y.clone(),
                    (_, 0) => x * y, (_, 1) => x.clone() * y.clone(), (_, 2) => x.clone() * y, (_, _) => x * y.clone(),
                })?;
                let m = match op { Op::Add(..) => a.1.add(&b.1), Op::Sub(..) => a.1.sub(&b.1), _ => a.1.mul(&b.1) };
                push!(r, m, &what);
            }
            Op::SubSelf(i) => { let i = reg!(*i); let a = regs.v[i].clone(); let r = call(&what, || &a.0 - &a.0)?; push!(r, RM::zero(k, a.1.m, a.1.n), &what); }
            Op::Neg(i, by_ref) => { let i = reg!(*i); let a = regs.v[i].clone(); note_use!(a); let r = call(&what, || if *by_ref { -&a.0 } else { -a.0.clone() })?; push!(r, a.1.neg(), &what); }
            Op::Transpose(i) => { let i = reg!(*i); let a = regs.v[i].clone(); note_use!(a); let r = call(&what, || a.0.transpose())?; push!(r, a.1.transpose(), &what); }
            Op::Permute(i, ps, qs, mode) => {
                let i = reg!(*i); let a = regs.v[i].clone(); note_use!(a);
                let (p, q) = (perm_of(*ps, a.1.m), perm_of(*qs, a.1.n));
                let (po, qo) = (PermOwned::new(p.clone()), PermOwned::new(q.clone()));
                let idm: Vec<usize> = (0..a.1.m).collect(); let idn: Vec<usize> = (0..a.1.n).collect();
                let (r, m) = match mode % 3 {
                    0 => (call(&what, || a.0.permute(po.view(), qo.view()))?, a.1.permute(&p, &q)),
                    1 => (call(&what, || a.0.permute_rows(po.view()))?, a.1.permute(&p, &idn)),
                    _ => (call(&what, || a.0.permute_cols(qo.view()))?, a.1.permute(&idm, &q)),
                };
                // documented: row_perm(p) * a == a.permute_rows(p);  a * col_perm(q) == a.permute_cols(q)
                let rp = call(&what, || SpMat::<R>::from_row_perm(po.view()))?;
                let cp = call(&what, || SpMat::<R>::from_col_perm(qo.view()))?;
                same_sp(&call(&what, || &rp * &a.0)?, &a.1.permute(&p, &idn), &format!("{what}: from_row_perm(p) * a"))?;
                same_sp(&call(&what, || &a.0 * &cp)?, &a.1.permute(&idm, &q), &format!("{what}: a * from_col_perm(q)"))?;
                push!(r, m, &what);
            }
            Op::Submat(i, r0, r1, c0, c1, mode) => {
                let i = reg!(*i); let a = regs.v[i].clone(); note_use!(a);
                let (mut r0, mut r1, mut c0, mut c1) = (frac(*r0, a.1.m), frac(*r1, a.1.m), frac(*c0, a.1.n), frac(*c1, a.1.n));
                if r0 > r1 { std::mem::swap(&mut r0, &mut r1); } if c0 > c1 { std::mem::swap(&mut c0, &mut c1); }
                let (r, m) = match mode % 3 {
                    0 => (call(&what, || a.0.submat(r0..r1, c0..c1))?, a.1.submat(r0..r1, c0..c1)),
                    1 => (call(&what, || a.0.submat_rows(r0..r1))?, a.1.submat(r0..r1, 0..a.1.n)),
                    _ => (call(&what, || a.0.submat_cols(c0..c1))?, a.1.submat(0..a.1.m, c0..c1)),
                };
                push!(r, m, &what);
            }
            Op::Divide4(i, kk, ll) => {
                let i = reg!(*i); let a = regs.v[i].clone(); note_use!(a);
                let (p, q) = (frac(*kk, a.1.m), frac(*ll, a.1.n));
                let [b0, b1, b2, b3] = call(&what, || a.0.divide4((p, q)))?;
                same_sp(&b0, &a.1.submat(0..p, 0..q), &format!("{what}: block a"))?;
                same_sp(&b1, &a.1.submat(0..p, q..a.1.n), &format!("{what}: block b"))?;
                same_sp(&b2, &a.1.submat(p..a.1.m, 0..q), &format!("{what}: block c"))?;
                same_sp(&b3, &a.1.submat(p..a.1.m, q..a.1.n), &format!("{what}: block d"))?;
                let r = call(&what, || SpMat::combine_blocks([&b0, &b1, &b2, &b3]))?;
                if p == 0 || q == 0 || p == a.1.m || q == a.1.n { regs.zero_dim_used = true; }
                push!(r, a.1.clone(), &format!("{what}: combine_blocks(divide4)"));
            }
            Op::Concat(i, s) => { let i = reg!(*i); let a = regs.v[i].clone(); let b = operand!(s, Some(a.1.m), None); note_use!(a); note_use!(b);
                let r = call(&what, || a.0.concat(&b.0))?; push!(r, a.1.concat(&b.1), &what); }
            Op::Stack(i, s) => { let i = reg!(*i); let a = regs.v[i].clone(); let b = operand!(s, None, Some(a.1.n)); note_use!(a); note_use!(b);
                let r = call(&what, || a.0.stack(&b.0))?; push!(r, a.1.stack(&b.1), &what); }
            Op::ExtendCols(i, s) => { let i = reg!(*i); let a = regs.v[i].clone(); let b = operand!(s, Some(a.1.m), None); note_use!(a); note_use!(b);
                let r = call(&what, || { let mut t = a.0.clone(); t.extend_cols(b.0.clone()); t })?; push!(r, a.1.concat(&b.1), &what); }
            Op::ColVecs(i) => {
                let i = reg!(*i); let a = regs.v[i].clone(); note_use!(a);
                let cols: Vec<SpVec<R>> = call(&what, || (0..a.1.n).map(|j| a.0.col_vec(j)).collect())?;
                for (j, v) in cols.iter().enumerate() { same_vec(v, &a.1.col(j), &format!("{what}: col_vec({j})"))?; }
                let r = call(&what, || SpMat::from_col_vecs(a.1.m, cols.clone()))?;
                push!(r, a.1.clone(), &format!("{what}: from_col_vecs(col_vecs)"));
            }
            Op::DenseRoundTrip(i) => {
                let i = reg!(*i); let a = regs.v[i].clone(); note_use!(a);
                let d: Mat<R> = call(&what, || a.0.clone().into_dense())?;
                same_mat(&d, &a.1, &format!("{what}: into_dense"))?;
                ensure!(d.is_zero() == a.1.is_zero() && d.is_id() == a.1.is_id(), "{what}: dense is_zero/is_id");
                // SpMat::is_id() looks at stored entries only (true for a square zero matrix); it is a predicate outside the
                // operations C13 lists and is unused by the library, so it is not asserted here (see DESIGN.md).
                let r = call(&what, || d.clone().into_sparse())?;
                push!(r, a.1.clone(), &format!("{what}: into_sparse(into_dense)"));
            }
            Op::MulVec(i, l, form) => {
                let i = reg!(*i); let a = regs.v[i].clone(); note_use!(a);
                let vm = lit_model(k, l, a.1.n, 1);
                let v: SpVec<R> = if l.how % 2 == 0 { rm_to_spvec(&vm).unwrap() } else {
                    SpVec::from_sorted_entries(a.1.n, (0..a.1.n).map(|r| (r, R::from_rv(&vm.a[r][0]).unwrap()))) }; // explicit zeros
                same_vec(&v, &vm, &format!("{what}: vector"))?;
                let r = call(&what, || match form % 3 { 0 => &a.0 * &v, 1 => a.0.clone() * v.clone(), _ => a.0.clone() * &v })?;
                same_vec(&r, &a.1.mul(&vm), &format!("{what}: SpMat * SpVec"))?;
            }
            Op::VecOps(l1, l2, at, ps) => {
                let n1 = l1.m as usize % 7; let n2 = l2.m as usize % 7;
                let (m1, m2) = (lit_model(k, l1, n1, 1), lit_model(k, l2, n2, 1));
                let mk = |m: &RM, how: u8| -> SpVec<R> { match how % 3 {
                    0 => rm_to_spvec(m).unwrap(),
                    1 => SpVec::from(m.a.iter().map(|r| R::from_rv(&r[0]).unwrap()).collect::<Vec<R>>()),
                    _ => SpVec::from_sorted_entries(m.m, (0..m.m).map(|r| (r, R::from_rv(&m.a[r][0]).unwrap()))) } };
                let (v1, v2) = (call(&what, || mk(&m1, l1.how))?, call(&what, || mk(&m2, l2.how))?);
                same_vec(&v1, &m1, &format!("{what}: v1"))?; same_vec(&v2, &m2, &format!("{what}: v2"))?;
                same_vec(&call(&what, || v1.stack(&v2))?, &m1.stack(&m2), &format!("{what}: stack"))?;
                same_vec(&call(&what, || SpVec::stack_vecs([v1.clone(), v2.clone(), v1.clone()]))?, &m1.stack(&m2).stack(&m1), &format!("{what}: stack_vecs"))?;
                let cut = frac(*at, n1);
                let (h, tl) = call(&what, || v1.split(cut))?;
                same_vec(&h, &m1.submat(0..cut, 0..1), &format!("{what}: split head"))?; same_vec(&tl, &m1.submat(cut..n1, 0..1), &format!("{what}: split tail"))?;
                let c2 = frac(at.wrapping_mul(31), n1); let (lo, hi) = (cut.min(c2), cut.max(c2));
                same_vec(&call(&what, || v1.subvec(lo..hi))?, &m1.submat(lo..hi, 0..1), &format!("{what}: subvec"))?;
                let p = perm_of(*ps, n1); let po = PermOwned::new(p.clone());
                same_vec(&call(&what, || v1.permute(po.view()))?, &m1.permute(&p, &[0]), &format!("{what}: permute"))?;
                same_vec(&call(&what, || -&v1)?, &m1.neg(), &format!("{what}: neg"))?;
                if n1 == n2 {
                    same_vec(&call(&what, || &v1 + &v2)?, &m1.add(&m2), &format!("{what}: +"))?;
                    same_vec(&call(&what, || &v1 - &v2)?, &m1.sub(&m2), &format!("{what}: -"))?;
                }
                same_vec(&call(&what, || &v1 - &v1)?, &RM::zero(k, n1, 1), &format!("{what}: v - v"))?;
                let back: Vec<R> = call(&what, || v1.clone().into_vec())?;
                for r in 0..n1 { ensure!(back[r].to_rv() == m1.a[r][0], "{what}: into_vec"); }
                same_sp(&call(&what, || v1.clone().into_mat())?, &m1, &format!("{what}: into_mat"))?;
                if n1 > 0 { let u = cut.min(n1 - 1); let mut um = RM::zero(k, n1, 1); um.a[u][0] = k.one(); same_vec(&call(&what, || SpVec::<R>::unit(n1, u))?, &um, &format!("{what}: unit"))?; }
                if n1 == 0 || n2 == 0 { regs.zero_dim_used = true; }
            }
            Op::DenseOps(i, steps) => {
                let i = reg!(*i); let a = regs.v[i].clone();
                let mut d: Mat<R> = call(&what, || Mat::from(a.0.clone()))?;
                let mut m = a.1.clone();
                same_mat(&d, &m, &format!("{what}: Mat::from(SpMat)"))?;
                for (s, (kind, x, y, u, w)) in steps.iter().enumerate() {
                    let w2 = format!("{what}: dense step #{s} ({kind},{x},{y},{u},{w})");
                    let (ru, rw) = (rval(&k, *u), rval(&k, *w));
                    let (tu, tw): (R, R) = (val(*u), val(*w));
                    match kind % 12 {
                        0 if m.m > 0 => { let (i, j) = (*x as usize % m.m, *y as usize % m.m); call(&w2, || d.swap_rows(i, j))?; m.a.swap(i, j); }
                        1 if m.n > 0 => { let (i, j) = (*x as usize % m.n, *y as usize % m.n); call(&w2, || d.swap_cols(i, j))?; for r in m.a.iter_mut() { r.swap(i, j); } }
                        2 if m.m > 0 => { let i = *x as usize % m.m; call(&w2, || d.mul_row(i, &tu))?; for c in 0..m.n { m.a[i][c] = k.mul(&m.a[i][c], &ru); } }
                        3 if m.n > 0 => { let j = *x as usize % m.n; call(&w2, || d.mul_col(j, &tu))?; for r in 0..m.m { m.a[r][j] = k.mul(&m.a[r][j], &ru); } }
                        4 if m.m > 1 => { let (i, j) = (*x as usize % m.m, *y as usize % m.m); if i == j { continue }
                            call(&w2, || d.add_row_to(i, j, &tu))?; for c in 0..m.n { m.a[j][c] = k.add(&m.a[j][c], &k.mul(&m.a[i][c], &ru)); } }
                        5 if m.n > 1 => { let (i, j) = (*x as usize % m.n, *y as usize % m.n); if i == j { continue }
                            call(&w2, || d.add_col_to(i, j, &tu))?; for r in 0..m.m { m.a[r][j] = k.add(&m.a[r][j], &k.mul(&m.a[r][i], &ru)); } }
                        6 if m.m > 1 => { let (i, j) = (*x as usize % m.m, *y as usize % m.m); if i == j { continue }
                            // multiply [a b; c d] from the left on rows (i, j), with (a,b,c,d) = (u, w, w+1, u-1)
                            let (ra, rb, rc, rd) = (ru.clone(), rw.clone(), k.add(&rw, &k.one()), k.sub(&ru, &k.one()));
                            let (ta, tb, tc, td): (R, R, R, R) = (tu.clone(), tw.clone(), R::from_rv(&rc).unwrap(), R::from_rv(&rd).unwrap());
                            call(&w2, || d.left_elementary([&ta, &tb, &tc, &td], i, j))?;
                            for c in 0..m.n { let (p, q) = (m.a[i][c].clone(), m.a[j][c].clone());
                                m.a[i][c] = k.add(&k.mul(&ra, &p), &k.mul(&rb, &q)); m.a[j][c] = k.add(&k.mul(&rc, &p), &k.mul(&rd, &q)); } }
                        7 if m.n > 1 => { let (i, j) = (*x as usize % m.n, *y as usize % m.n); if i == j { continue }
                            // multiply [a c; b d] from the right on columns (i, j): col_i <- a col_i + b col_j, col_j <- c col_i + d col_j
                            let (ra, rb, rc, rd) = (ru.clone(), rw.clone(), k.add(&rw, &k.one()), k.sub(&ru, &k.one()));
                            let (ta, tb, tc, td): (R, R, R, R) = (tu.clone(), tw.clone(), R::from_rv(&rc).unwrap(), R::from_rv(&rd).unwrap());
                            call(&w2, || d.right_elementary([&ta, &tb, &tc, &td], i, j))?;
                            for r in 0..m.m { let (p, q) = (m.a[r][i].clone(), m.a[r][j].clone());
                                m.a[r][i] = k.add(&k.mul(&ra, &p), &k.mul(&rb, &q)); m.a[r][j] = k.add(&k.mul(&rc, &p), &k.mul(&rd, &q)); } }
                        8 => { let t = call(&w2, || -&d)?; same_mat(&t, &m.neg(), &w2)?; let s2 = call(&w2, || &d + &t)?; same_mat(&s2, &RM::zero(k, m.m, m.n), &w2)?;
                               let s3 = call(&w2, || &d - &t)?; same_mat(&s3, &m.add(&m), &w2)?; }
                        9 => { let id: Mat<R> = Mat::id(m.n); same_mat(&id, &RM::id(k, m.n), &w2)?; let p = call(&w2, || &d * &id)?; same_mat(&p, &m, &w2)?;
                               let tm = m.transpose(); let tt: Mat<R> = rm_to_mat(&tm).unwrap(); let p2 = call(&w2, || &d * &tt)?; same_mat(&p2, &m.mul(&tm), &w2)?; }
                        10 => { let r0 = *x as usize % (m.m + 1); let c0 = *y as usize % (m.n + 1);
                                same_mat(&call(&w2, || d.submat(r0..m.m, 0..c0))?, &m.submat(r0..m.m, 0..c0), &w2)?;
                                same_mat(&call(&w2, || d.submat_rows(0..r0))?, &m.submat(0..r0, 0..m.n), &w2)?;
                                same_mat(&call(&w2, || d.submat_cols(c0..m.n))?, &m.submat(0..m.m, c0..m.n), &w2)?; }
                        11 => { let dn = m.m.min(m.n); let es: Vec<RV> = (0..dn).map(|t| rval(&k, (*u).wrapping_add(t as i8) % 5)).collect();
                                let dd: Mat<R> = call(&w2, || Mat::diag((m.m, m.n), es.iter().map(|e| R::from_rv(e).unwrap())))?;
                                same_mat(&dd, &RM::diag(k, m.m, m.n, &es), &w2)?; ensure!(dd.is_diag(), "{w2}: is_diag"); }
                        _ => {}
                    }
                    same_mat(&d, &m, &w2)?;
                    ensure!(d.is_zero() == m.is_zero(), "{w2}: is_zero");
                    let is_diag = (0..m.m).all(|r| (0..m.n).all(|c| r == c || k.is_zero(&m.a[r][c])));
                    ensure!(d.is_diag() == is_diag, "{w2}: is_diag() = {}", d.is_diag());
                }
                let r = call(&what, || SpMat::from(d.clone()))?;
                push!(r, m, &format!("{what}: SpMat::from(Mat)"));
            }
            Op::Trans(tops, vl) => {
                // a Trans history; model = list of (f, b) factor models
                let n0 = vl.m as usize % 6;
                let mut tr: Trans<R> = Trans::id(n0);
                let mut fs: Vec<RM> = vec![]; let mut bs: Vec<RM> = vec![];
                let mut tgt = n0;
                let mut special = false;
                for (s, to) in tops.iter().enumerate() {
                    let w2 = format!("{what}: trans step #{s}");
                    match to {
                        TOp::Append(lf, lb) => { let m = lf.m as usize % 6;
                            let (fm, bm) = (lit_model(k, lf, m, tgt), lit_model(k, lb, tgt, m));
                            let (f, b) = (lit_sp::<R>(lf, m, tgt), lit_sp::<R>(lb, tgt, m));
                            call(&w2, || tr.append(f, b))?; fs.push(fm); bs.push(bm); tgt = m; }
                        TOp::AppendId => { call(&w2, || tr.append(SpMat::id(tgt), SpMat::id(tgt)))?; fs.push(RM::id(k, tgt)); bs.push(RM::id(k, tgt)); }
                        TOp::AppendZero => { call(&w2, || tr.append(SpMat::zero((tgt, tgt)), SpMat::zero((tgt, tgt))))?; fs.push(RM::zero(k, tgt, tgt)); bs.push(RM::zero(k, tgt, tgt)); special = true; }
                        TOp::AppendDiag01(mask) => { let es: Vec<RV> = (0..tgt).map(|t| if (mask >> (t % 8)) & 1 == 1 { k.one() } else { k.zero() }).collect();
                            let dm = RM::diag(k, tgt, tgt, &es); let f: SpMat<R> = rm_to_sp(&dm).unwrap();
                            call(&w2, || tr.append(f.clone(), f.clone()))?; fs.push(dm.clone()); bs.push(dm); special = true; }
                        TOp::AppendPerm(ps) => { let p = perm_of(*ps, tgt); let po = PermOwned::new(p.clone());
                            call(&w2, || tr.append_perm(po.view()))?;
                            let idn: Vec<usize> = (0..tgt).collect();
                            fs.push(RM::id(k, tgt).permute(&p, &idn)); bs.push(RM::id(k, tgt).permute(&idn, &p)); }
                        TOp::Merge(list) => { let mut o: Trans<R> = Trans::id(tgt); let mut t2 = tgt; let mut of = vec![]; let mut ob = vec![];
                            for (lf, lb) in list { let m = lf.m as usize % 6; of.push(lit_model(k, lf, m, t2)); ob.push(lit_model(k, lb, t2, m));
                                o.append(lit_sp::<R>(lf, m, t2), lit_sp::<R>(lb, t2, m)); t2 = m; }
                            if s % 2 == 0 { call(&w2, || tr.merge(o))?; } else { tr = call(&w2, || tr.merged(&o))?; }
                            fs.extend(of); bs.extend(ob); tgt = t2; }
                        TOp::Reduce => { call(&w2, || tr.reduce())?; special = true; }
                        TOp::Sub(ix) => { let idx: Vec<usize> = if tgt == 0 { vec![] } else { ix.iter().map(|i| *i as usize % tgt).collect() };
                            tr = call(&w2, || tr.sub(&idx))?;
                            let p = idx.len(); let mut f = RM::zero(k, p, tgt); let mut b = RM::zero(k, tgt, p);
                            for (i, j) in idx.iter().enumerate() { f.a[i][*j] = k.add(&f.a[i][*j], &k.one()); b.a[*j][i] = k.add(&b.a[*j][i], &k.one()); }
                            fs.push(f); bs.push(b); tgt = p; special = true; }
                    }
                    // compare after every step
                    ensure!(tr.src_dim() == n0 && tr.tgt_dim() == tgt, "{w2}: dims ({}, {}) != model ({n0}, {tgt})", tr.src_dim(), tr.tgt_dim());
                    let fprod = fs.iter().fold(RM::id(k, n0), |acc, f| f.mul(&acc));
                    let bprod = bs.iter().rev().fold(RM::id(k, tgt), |acc, b| b.mul(&acc));
                    same_sp(&call(&w2, || tr.forward_mat())?, &fprod, &format!("{w2}: forward_mat"))?;
                    same_sp(&call(&w2, || tr.backward_mat())?, &bprod, &format!("{w2}: backward_mat"))?;
                    let vm = lit_model(k, vl, n0, 1); let v: SpVec<R> = rm_to_spvec(&vm).unwrap();
                    same_vec(&call(&w2, || tr.forward(&v))?, &fprod.mul(&vm), &format!("{w2}: forward(v)"))?;
                    let wm = lit_model(k, &Lit { m: 0, n: 0, e: vl.e.iter().map(|(a, b, c)| (*b, *a, c.wrapping_add(1))).collect(), how: 0 }, tgt, 1);
                    let w: SpVec<R> = rm_to_spvec(&wm).unwrap();
                    same_vec(&call(&w2, || tr.backward(&w))?, &bprod.mul(&wm), &format!("{w2}: backward(w)"))?;
                }
                if tops.len() >= 3 && special { trans_nt = true; }
                pass = pass.label("trans-history");
            }
        }
    }
    // operands must be unchanged by everything that used them
    for (i, (a, m)) in regs.v.iter().enumerate() { same_sp(a, m, &format!("final re-check of register {i}"))?; }
    Ok(pass.nt((regs.stored_zero_used || regs.zero_dim_used || trans_nt) && !c.ops.is_empty())
        .label(format!("ring:{:?}", c.rty)).label_if(regs.stored_zero_used, "stored-zero-operand").label_if(regs.zero_dim_used, "zero-dimension").label_if(trans_nt, "trans-nontrivial"))
}

fn run_case(c: &Case) -> Chk<Pass> {
    let r = guard(|| match c.rty {
        RTy::I64 => run_ty::<i64>(c), RTy::Q => run_ty::<Ratio<i64>>(c), RTy::F3 => run_ty::<FF<3>>(c), RTy::Big => run_ty::<num_bigint::BigInt>(c),
    });
    match r { Ok(r) => r, Err(m) => if c.rty != RTy::Big && c.rty != RTy::F3 && is_arith_overflow(&m) { discard("machine-overflow") } else { bad(format!("panicked: {m}")) } }
}

// ---------------------------------------------------------------------------

fn lit(max_entries: usize) -> BoxedStrategy<Lit> {
    let dim = prop_oneof![2 => Just(0u8), 2 => Just(1u8), 8 => 0u8..7];
    (dim.clone(), dim, prop::collection::vec((0u8..7, 0u8..7, prop_oneof![1 => Just(0i8), 6 => -3i8..=3]), 0..max_entries), 0u8..4)
        .prop_map(|(m, n, e, how)| Lit { m, n, e, how }).boxed()
}
fn src() -> BoxedStrategy<Src> { prop_oneof![3 => any::<u8>().prop_map(Src::Reg), 2 => lit(10).prop_map(Src::Lit)].boxed() }

fn top() -> BoxedStrategy<TOp> {
    prop_oneof![
        5 => (lit(8), lit(8)).prop_map(|(a, b)| TOp::Append(a, b)),
        2 => any::<u32>().prop_map(TOp::AppendPerm),
        2 => prop::collection::vec((lit(6), lit(6)), 0..3).prop_map(TOp::Merge),
        3 => Just(TOp::Reduce),
        2 => prop::collection::vec(any::<u8>(), 0..5).prop_map(TOp::Sub),
        1 => Just(TOp::AppendId), 1 => Just(TOp::AppendZero), 1 => any::<u8>().prop_map(TOp::AppendDiag01),
    ].boxed()
}

fn op() -> BoxedStrategy<Op> {
    let r = || any::<u8>();
    prop_oneof![
        6 => lit(12).prop_map(Op::New),
        3 => (r(), src(), r()).prop_map(|(a, s, f)| Op::Add(a, s, f)),
        3 => (r(), src(), r()).prop_map(|(a, s, f)| Op::Sub(a, s, f)),
        4 => (r(), src(), r()).prop_map(|(a, s, f)| Op::Mul(a, s, f)),
        3 => r().prop_map(Op::SubSelf),
        1 => (r(), any::<bool>()).prop_map(|(a, b)| Op::Neg(a, b)),
        2 => r().prop_map(Op::Transpose),
        3 => (r(), any::<u32>(), any::<u32>(), r()).prop_map(|(a, p, q, m)| Op::Permute(a, p, q, m)),
        3 => (r(), any::<u16>(), any::<u16>(), any::<u16>(), any::<u16>(), r()).prop_map(|(a, b, c, d, e, m)| Op::Submat(a, b, c, d, e, m)),
        3 => (r(), any::<u16>(), any::<u16>()).prop_map(|(a, b, c)| Op::Divide4(a, b, c)),
        2 => (r(), src()).prop_map(|(a, s)| Op::Concat(a, s)),
        2 => (r(), src()).prop_map(|(a, s)| Op::Stack(a, s)),
        2 => (r(), src()).prop_map(|(a, s)| Op::ExtendCols(a, s)),
        2 => r().prop_map(Op::ColVecs),
        2 => r().prop_map(Op::DenseRoundTrip),
        2 => (r(), lit(6), r()).prop_map(|(a, l, f)| Op::MulVec(a, l, f)),
        2 => (lit(6), lit(6), any::<u16>(), any::<u32>()).prop_map(|(a, b, c, d)| Op::VecOps(a, b, c, d)),
        2 => (r(), prop::collection::vec((0u8..12, r(), r(), -3i8..=3, -3i8..=3), 0..8)).prop_map(|(a, s)| Op::DenseOps(a, s)),
        3 => (prop::collection::vec(top(), 0..7), lit(6)).prop_map(|(t, l)| Op::Trans(t, l)),
    ].boxed()
}

impl Prop for C13 {
    type Case = Case;
    const ID: &'static str = "C13";
    fn rule() -> String {
        "case = (ring in {i64, Ratio<i64>, FF<3>, BigInt}, op list 0..25 over a register file of up to 6 SpMat values): construction (from_entries with duplicates and zeros, from_dense_data, from_col_vecs of from_sorted_entries columns with explicit zeros, from Mat), + - * neg in several operator forms, a - a (all entries stored zeros), transpose, permute(_rows|_cols) and from_row_perm/from_col_perm products, submat(_rows|_cols), divide4 + combine_blocks, concat, stack, extend_cols, col_vec/from_col_vecs, into_dense/into_sparse, SpMat*SpVec, SpVec ops, Mat row/column operations, Trans histories (append, append_perm, merge, reduce, sub) with forward/backward/forward_mat/backward_mat compared with the product of the factor models after every step; every result is compared entry-wise (iter(), duplicates summed) with a dense reference matrix. \
         non-trivial = an operand with an explicitly stored zero or a zero dimension was used by a later operation, or a Trans history of length >= 3 containing reduce / sub / a non-invertible factor".into()
    }
    fn assumptions() -> Vec<String> { vec!["only operations that are valid in the model are generated (matching shapes, ranges inside the matrix, sorted unique indices for from_sorted_entries); the property is about values of valid operations".into()] }
    fn strategy(tier: Tier) -> BoxedStrategy<Case> {
        let n = tier.pick(25usize, 60usize);
        (prop::sample::select(vec![RTy::I64, RTy::I64, RTy::Q, RTy::F3, RTy::Big]), prop::collection::vec(op(), 0..n)).prop_map(|(rty, ops)| Case { rty, ops }).boxed()
    }
    fn cases(tier: Tier) -> u32 { tier.pick(150_000, 3_000_000) }
    fn shards(_: Tier) -> usize { 16 }
    fn run(case: &Case, _ctx: &Ctx) -> Outcome { to_outcome(run_case(case)) }
}
