//! C05 Every Khovanov complex returned is a graded chain complex, over any ring; specialisation commutes with homology.

use num_bigint::BigInt;
use num_traits::{One, Zero};
use proptest::prelude::*;
use serde::{Deserialize, Serialize};
use std::collections::BTreeMap;
use yui::poly::{Mono, Poly, Poly2};
use yui::{Ratio, FF, FF2};
use yui_homology::{ChainComplexTrait, GridTrait, SummandTrait};
use yui_kh::kh::KhComplex;

use crate::engine::*;
use crate::ensure;
use crate::kit::dgen::*;
use crate::kit::local::{self, SpRows};
use crate::kit::pools::with_threads;
use crate::kit::refalg::*;
use crate::kit::sc::Sc;

pub struct C05;

#[derive(Clone, Copy, Debug, Serialize, Deserialize, PartialEq)]
pub enum PRing { Z, Q, F2, F3, ZH, ZT, ZHT, QH, F2H }

#[derive(Clone, Debug, Serialize, Deserialize)]
pub struct Case { pub d: DSpec, pub ring: PRing, pub h: i8, pub t: i8, pub reduced: bool, pub point: (i8, i8), pub threads: u8 }

/// polynomial in H, T over a reference coefficient ring: (a, b) -> coefficient of H^a T^b
type HT = BTreeMap<(usize, usize), RV>;

pub trait KhCoef: yui::Ring + Sized where for<'x> &'x Self: yui::RingOps<Self> { fn coef_rk() -> RK; fn to_ht(&self) -> HT; }

macro_rules! impl_const { ($($t:ty),*) => { $(impl KhCoef for $t {
    fn coef_rk() -> RK { <$t as Sc>::rk() }
    fn to_ht(&self) -> HT { let v = self.to_rv(); if Self::coef_rk().is_zero(&v) { HT::new() } else { [((0, 0), v)].into_iter().collect() } }
})* } }
impl_const!(BigInt, Ratio<i64>, FF2, FF<3>);

impl<R> KhCoef for Poly<'H', R> where R: Sc + yui::Ring, for<'x> &'x R: yui::RingOps<R> {
    fn coef_rk() -> RK { R::rk() }
    fn to_ht(&self) -> HT { let k = R::rk(); let mut m = HT::new(); for (x, r) in self.iter() { let v = r.to_rv(); if !k.is_zero(&v) { let e = m.entry((x.deg(), 0)).or_insert_with(|| k.zero()); *e = k.add(e, &v); } } m.retain(|_, v| !k.is_zero(v)); m }
}
impl<R> KhCoef for Poly<'T', R> where R: Sc + yui::Ring, for<'x> &'x R: yui::RingOps<R> {
    fn coef_rk() -> RK { R::rk() }
    fn to_ht(&self) -> HT { let k = R::rk(); let mut m = HT::new(); for (x, r) in self.iter() { let v = r.to_rv(); if !k.is_zero(&v) { let e = m.entry((0, x.deg())).or_insert_with(|| k.zero()); *e = k.add(e, &v); } } m.retain(|_, v| !k.is_zero(v)); m }
}
impl<R> KhCoef for Poly2<'H', 'T', R> where R: Sc + yui::Ring, for<'x> &'x R: yui::RingOps<R> {
    fn coef_rk() -> RK { R::rk() }
    fn to_ht(&self) -> HT { let k = R::rk(); let mut m = HT::new(); for (x, r) in self.iter() { let v = r.to_rv(); if !k.is_zero(&v) { let d = x.deg(); let e = m.entry((d.0, d.1)).or_insert_with(|| k.zero()); *e = k.add(e, &v); } } m.retain(|_, v| !k.is_zero(v)); m }
}

fn ht_mul_add(k: &RK, acc: &mut HT, a: &HT, b: &HT) {
    for ((a1, b1), x) in a { for ((a2, b2), y) in b { let key = (a1 + a2, b1 + b2); let v = k.add(acc.get(&key).unwrap_or(&k.zero()), &k.mul(x, y)); if k.is_zero(&v) { acc.remove(&key); } else { acc.insert(key, v); } } }
}

pub struct Extracted { pub k: RK, pub degs: BTreeMap<isize, Deg> }
pub struct Deg { pub n: usize, pub m: usize, pub q: Vec<isize>, pub hdeg: Vec<isize>, pub entries: Vec<(usize, usize, HT)> }

pub fn extract<R: KhCoef>(c: &KhComplex<R>) -> Extracted where for<'x> &'x R: yui::RingOps<R> {
    let mut degs = BTreeMap::new();
    for i in c.h_range() {
        let d = c.d_matrix(i);
        let (n, m) = (c[i].rank(), c[i + 1].rank());
        let gens = c[i].raw_gens();
        let entries: Vec<(usize, usize, HT)> = d.iter().map(|(r, cc, v)| (r, cc, v.to_ht())).filter(|e| !e.2.is_empty()).collect();
        use yui_matrix::MatTrait;
        let shape = d.shape();
        degs.insert(i, Deg { n, m: if shape == (m, n) { m } else { usize::MAX }, q: gens.iter().map(|g| g.q_deg()).collect(), hdeg: gens.iter().map(|g| g.h_deg()).collect(), entries });
    }
    Extracted { k: R::coef_rk(), degs }
}

fn check_complex(e: &Extracted, graded: bool, what: &str) -> Chk<bool> {
    let k = e.k;
    let mut positive_degree_entry = false;
    for (i, d) in &e.degs {
        ensure!(d.m != usize::MAX, "{what}: d_matrix({i}) does not have shape rank(C^{}) x rank(C^{i})", i + 1);
        ensure!(d.q.len() == d.n, "{what}: C^{i} has {} generators but rank {}", d.q.len(), d.n);
        ensure!(d.hdeg.iter().all(|h| h == i), "{what}: a generator listed in C^{i} has homological degree {:?}", d.hdeg);
        for (r, c, _) in &d.entries { ensure!(*r < d.m && *c < d.n, "{what}: entry ({r},{c}) of d_{i} outside the matrix"); }
        // d_{i+1} d_i = 0
        if let Some(d2) = e.degs.get(&(i + 1)) {
            let mut by_row: BTreeMap<usize, Vec<(usize, &HT)>> = BTreeMap::new(); // rows of d_i: row -> [(col, val)]
            for (r, c, v) in &d.entries { by_row.entry(*r).or_default().push((*c, v)); }
            let mut prod: BTreeMap<(usize, usize), HT> = BTreeMap::new();
            for (r2, c2, v2) in &d2.entries { if let Some(row) = by_row.get(c2) { for (c1, v1) in row { ht_mul_add(&k, prod.entry((*r2, *c1)).or_default(), v2, v1); } } }
            if let Some((pos, v)) = prod.iter().find(|(_, v)| !v.is_empty()) { return bad(format!("{what}: d_{} d_{i} != 0: entry {:?} = {:?}", i + 1, pos, v.iter().map(|(k, c)| (*k, SV::of(c))).collect::<Vec<_>>())) }
        }
        // homogeneity: q(y) - 2a - 4b == q(x) for every monomial c H^a T^b of the entry y <- x
        let qn = e.degs.get(&(i + 1)).map(|d| d.q.clone()).unwrap_or_default();
        for (r, c, v) in &d.entries { for ((a, b), _) in v {
            if *a + *b > 0 { positive_degree_entry = true; }
            if graded { ensure!(qn[*r] - 2 * (*a as isize) - 4 * (*b as isize) == d.q[*c], "{what}: d_{i} is not homogeneous of q-degree 0: entry ({r},{c}) has the monomial H^{a} T^{b}, q(target) = {}, q(source) = {}", qn[*r], d.q[*c]); }
        } }
    }
    Ok(positive_degree_entry)
}

/// integer matrices after evaluating H -> a, T -> b.  Rational coefficients: each row is scaled by the lcm of its denominators
/// (row scaling does not change ranks, which is all that is compared over Q).
fn evaluate(e: &Extracted, a: &BigInt, b: &BigInt) -> BTreeMap<isize, (usize, SpRows)> {
    use num_integer::Integer;
    use num_rational::BigRational;
    e.degs.iter().map(|(i, d)| {
        let mut rq: Vec<BTreeMap<usize, BigRational>> = vec![BTreeMap::new(); d.m];
        for (r, c, v) in &d.entries {
            let mut s = BigRational::zero();
            for ((x, y), cf) in v { let cz = match cf { RV::Z(z) => BigRational::from_integer(z.clone()), RV::F(f) => BigRational::from_integer(BigInt::from(*f)), RV::Q(q) => q.clone(), _ => BigRational::zero() };
                s += cz * BigRational::from_integer(num_traits::pow(a.clone(), *x) * num_traits::pow(b.clone(), *y)); }
            if !s.is_zero() { *rq[*r].entry(*c).or_insert_with(BigRational::zero) += s; }
        }
        let rows: SpRows = rq.into_iter().map(|row| {
            let l = row.values().fold(BigInt::one(), |l, q| l.lcm(q.denom()));
            row.into_iter().filter(|(_, q)| !q.is_zero()).map(|(c, q)| (c, q.numer() * (&l / q.denom()))).collect()
        }).collect();
        (*i, (d.n, rows))
    }).collect()
}

/// homology fingerprint of integer differentials: per degree (free rank [over Q or F_p], positive valuations at 2,3,5 of the incoming map [Z only])
fn fingerprint(ds: &BTreeMap<isize, (usize, SpRows)>, field_p: Option<u64>) -> BTreeMap<isize, (usize, Vec<Vec<u32>>)> {
    let info: BTreeMap<isize, (usize, usize, Vec<Vec<u32>>)> = ds.iter().map(|(i, (n, rows))| {
        let r = match field_p { Some(0) | None => local::rank_q_sparse(rows, *n), Some(p) => local::rank_mod_sparse(rows, *n, p) };
        let vals = if field_p.is_none() { [2u64, 3, 5].iter().map(|p| local::local_smith_sparse(rows, *n, *p).into_iter().filter(|v| *v > 0).collect()).collect() } else { vec![] };
        (*i, (*n, r, vals))
    }).collect();
    let mut out = BTreeMap::new();
    for (i, (n, r_out, _)) in &info {
        let (r_in, tors) = info.get(&(i - 1)).map(|x| (x.1, x.2.clone())).unwrap_or((0, vec![]));
        let free = *n as isize - *r_out as isize - r_in as isize;
        let tors: Vec<Vec<u32>> = if tors.iter().all(|v| v.is_empty()) { vec![] } else { tors };
        if free != 0 || !tors.is_empty() { out.insert(*i, (free.max(0) as usize, tors)); }
    }
    out
}

fn run_case(c: &Case, tier: Tier) -> Chk<Pass> {
    let dg = match build(&c.d) { Ok(d) => d, Err(e) => return discard(format!("diagram-build: {e}")) };
    if dg.orient(0).is_err() { return discard("diagram-invalid") }
    // constants: d.d = 0 and gradings need no oracle, so larger diagrams are affordable; polynomial rings are kept small
    let poly_ring = matches!(c.ring, PRing::ZH | PRing::ZT | PRing::ZHT | PRing::QH | PRing::F2H);
    if dg.ncross() > if poly_ring { tier.pick(8, 10) } else { tier.pick(11, 12) } { return discard("size-cap") }
    let l = dg.to_link();
    let threads = [1usize, 2, 4, 16][c.threads as usize % 4];
    let poly = matches!(c.ring, PRing::ZH | PRing::ZT | PRing::ZHT | PRing::QH | PRing::F2H);
    let (h, t) = match c.ring { PRing::F2 => (c.h.rem_euclid(2), c.t.rem_euclid(2)), PRing::F3 => (c.h.rem_euclid(3), c.t.rem_euclid(3)), _ => (c.h, c.t) };
    // reduced needs t = 0: only the rings with parameter t = 0 in the polynomial case
    let t_zero = match c.ring { PRing::ZT | PRing::ZHT => false, PRing::ZH | PRing::QH | PRing::F2H => true, _ => t == 0 };
    let reduced = c.reduced && t_zero && !dg.x.is_empty();
    let what = format!("{:?} ring={:?} (h,t)=({h},{t}) reduced={reduced} point={:?} diagram={:?}", c.d, c.ring, c.point, dg.x);
    let what = if what.len() > 1000 { format!("{}...", &what[..1000]) } else { what };
    macro_rules! lib { ($e:expr) => { match with_threads(threads, || guard(|| $e)) { Ok(v) => v, Err(m) => { if is_arith_overflow(&m) && matches!(c.ring, PRing::Q | PRing::QH) { return discard("machine-overflow") } return bad(format!("{what}: library panicked: {m}")) } } } }
    type PH<R> = Poly<'H', R>; type PT<R> = Poly<'T', R>; type PHT<R> = Poly2<'H', 'T', R>;
    let big = |x: i8| BigInt::from(x);
    let (ext, graded) = match c.ring {
        PRing::Z => (lib!(extract(&KhComplex::<BigInt>::new(&l, &big(h), &big(t), reduced))), (h, t) == (0, 0)),
        PRing::Q => (lib!(extract(&KhComplex::<Ratio<i64>>::new(&l, &Ratio::from(h as i64), &Ratio::from(t as i64), reduced))), (h, t) == (0, 0)),
        PRing::F2 => (lib!(extract(&KhComplex::<FF2>::new(&l, &FF2::from(h as i64), &FF2::from(t as i64), reduced))), (h, t) == (0, 0)),
        PRing::F3 => (lib!(extract(&KhComplex::<FF<3>>::new(&l, &FF::<3>::new(h as i32), &FF::<3>::new(t as i32), reduced))), (h, t) == (0, 0)),
        PRing::ZH => (lib!(extract(&KhComplex::<PH<BigInt>>::new(&l, &PH::variable(), &PH::zero(), reduced))), true),
        PRing::ZT => (lib!(extract(&KhComplex::<PT<BigInt>>::new(&l, &PT::zero(), &PT::variable(), reduced))), true),
        PRing::ZHT => (lib!(extract(&KhComplex::<PHT<BigInt>>::new(&l, &PHT::variable(0), &PHT::variable(1), reduced))), true),
        PRing::QH => (lib!(extract(&KhComplex::<PH<Ratio<i64>>>::new(&l, &PH::variable(), &PH::zero(), reduced))), true),
        PRing::F2H => (lib!(extract(&KhComplex::<PH<FF2>>::new(&l, &PH::variable(), &PH::zero(), reduced))), true),
    };
    let pos_entry = check_complex(&ext, graded, &what)?;
    // constants: the builder's elimination order follows a per-instance hash order, so the same input is built again (cheap)
    if !poly { for rep in 2..=3 {
        let e2 = match c.ring {
            PRing::Z => lib!(extract(&KhComplex::<BigInt>::new(&l, &big(h), &big(t), reduced))),
            PRing::Q => lib!(extract(&KhComplex::<Ratio<i64>>::new(&l, &Ratio::from(h as i64), &Ratio::from(t as i64), reduced))),
            PRing::F2 => lib!(extract(&KhComplex::<FF2>::new(&l, &FF2::from(h as i64), &FF2::from(t as i64), reduced))),
            _ => lib!(extract(&KhComplex::<FF<3>>::new(&l, &FF::<3>::new(h as i32), &FF::<3>::new(t as i32), reduced))),
        };
        check_complex(&e2, graded, &format!("{what} [build {rep} of the same input]"))?;
    } }
    // the reduced construction is only defined for t = 0; if the library nevertheless returns something for t != 0 it must be a complex
    if c.reduced && !t_zero && !poly && !dg.x.is_empty() {
        let r = with_threads(threads, || guard(|| match c.ring {
            PRing::Z => extract(&KhComplex::<BigInt>::new(&l, &big(h), &big(t), true)),
            PRing::Q => extract(&KhComplex::<Ratio<i64>>::new(&l, &Ratio::from(h as i64), &Ratio::from(t as i64), true)),
            PRing::F2 => extract(&KhComplex::<FF2>::new(&l, &FF2::from(h as i64), &FF2::from(t as i64), true)),
            _ => extract(&KhComplex::<FF<3>>::new(&l, &FF::<3>::new(h as i32), &FF::<3>::new(t as i32), true)) }));
        if let Ok(e2) = r { check_complex(&e2, false, &format!("{what} [reduced with t != 0 was accepted]"))?; }
    }

    // ---- specialisation commutes with homology
    let mut spec_nt = false;
    if poly {
        let (a, b) = match c.ring { PRing::ZH | PRing::QH => (c.point.0, 0), PRing::ZT => (0, c.point.1), PRing::F2H => (c.point.0.rem_euclid(2), 0), _ => c.point };
        let (ab, bb) = (big(a), big(b));
        let ev = evaluate(&ext, &ab, &bb);
        let (direct, fld) = match c.ring {
            PRing::QH => (lib!(extract(&KhComplex::<Ratio<i64>>::new(&l, &Ratio::from(a as i64), &Ratio::from(0), reduced))), Some(0u64)),
            PRing::F2H => (lib!(extract(&KhComplex::<FF2>::new(&l, &FF2::from(a as i64), &FF2::from(0i64), reduced))), Some(2)),
            _ => (lib!(extract(&KhComplex::<BigInt>::new(&l, &ab, &bb, reduced))), None),
        };
        check_complex(&direct, (a, b) == (0, 0), &format!("{what} [direct complex at ({a},{b})]"))?;
        // Q coefficients: clear denominators row-wise is unnecessary here (entries of the direct complex over Q built from integers are integers); a non-integer would be a discard
        let dv = evaluate(&direct, &BigInt::zero(), &BigInt::zero());
        let (f1, f2) = (fingerprint(&ev, fld), fingerprint(&dv, fld));
        ensure!(f1 == f2, "{what}: the complex built with polynomial parameters and evaluated at (h,t) = ({a},{b}) has homology fingerprint {:?}, the complex built directly has {:?}", f1, f2);
        spec_nt = a != 0 && (b != 0 || !matches!(c.ring, PRing::ZHT));
    }
    Ok(Pass::new().nt((poly && pos_entry) || spec_nt).label(format!("ring:{:?}", c.ring)).label_if(pos_entry, "entry-of-positive-degree").label_if(reduced, "reduced").label_if(spec_nt, "specialisation-point-nonzero")
        .label_if(dg.components().map(|c| c.len()).unwrap_or(0) >= 2, "multi-component"))
}

impl Prop for C05 {
    type Case = Case;
    const ID: &'static str = "C05";
    fn rule() -> String {
        "case = (diagram with <= 8 (10) crossings as in C01; ring in {Z, Q, F2, F3 with constants (h,t) in [-3,3]^2 (built three times: the elimination order varies per instance); Z[H] (h=H,t=0), Z[T] (h=0,t=T), Z[H,T], Q[H], F2[H]}; reduced where t = 0; evaluation point (a,b) in [-4,4]^2; threads). \
         from KhComplex::new(..): d_matrix(i) has shape rank(C^i+1) x rank(C^i), every generator of C^i has homological degree i, d_i+1 d_i = 0 with the harness's own polynomial arithmetic on the extracted entries, \
         every monomial c H^a T^b of an entry y <- x satisfies q(y) - 2a - 4b = q(x) (constants: when h = t = 0); \
         the polynomial complex evaluated at (a,b) and the complex built directly with (a,b) have the same homology fingerprint (free ranks per degree and 2,3,5-primary torsion exponents by the harness's own elimination; ranks over Q / F2 for Q[H], F2[H]). \
         non-trivial = a polynomial ring with a differential entry of positive degree, or a specialisation point with non-zero coordinates".into()
    }
    fn strategy(tier: Tier) -> BoxedStrategy<Case> {
        let ring = prop_oneof![3 => Just(PRing::Z), 1 => Just(PRing::Q), 1 => Just(PRing::F2), 2 => Just(PRing::F3), 3 => Just(PRing::ZH), 2 => Just(PRing::ZT), 4 => Just(PRing::ZHT), 2 => Just(PRing::QH), 2 => Just(PRing::F2H)];
        ring.prop_flat_map(move |ring| {
            let poly = matches!(ring, PRing::ZH | PRing::ZT | PRing::ZHT | PRing::QH | PRing::F2H);
            let maxc = if poly { tier.pick(7, 9) } else { tier.pick(10, 11) };
            (dspec_strategy(maxc, if poly { 2 } else { 1 }), Just(ring), crate::props::c01::ht_strategy(), any::<bool>(), (-4i8..=4, -4i8..=4), any::<u8>())
        }).prop_map(|(d, ring, (h, t), reduced, point, threads)| Case { d, ring, h, t, reduced, point, threads }).boxed()
    }
    fn cases(tier: Tier) -> u32 { tier.pick(8_000, 150_000) }
    fn shards(tier: Tier) -> usize { tier.pick(8, 16) }
    fn replay_repeats() -> usize { 5 }
    fn run(case: &Case, ctx: &Ctx) -> Outcome { to_outcome(run_case(case, ctx.tier)) }
}
