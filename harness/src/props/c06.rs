//! C06 Canonical (Lee) classes and the s-type invariant behave as knot invariants.

use num_bigint::BigInt;
use num_traits::Zero;
use proptest::prelude::*;
use serde::{Deserialize, Serialize};
use yui::poly::Poly;
use yui::{Ratio, FF, FF2};
use yui_homology::{ChainComplexTrait, GridTrait, SummandTrait};
use yui_kh::kh::{ss_invariant, KhComplex, KhHomology};

use crate::engine::*;
use crate::ensure;
use crate::kit::dgen::*;
use crate::kit::diagram::*;
use crate::kit::pools::with_threads;
use crate::props::c18::own_jones;

pub struct C06;

#[derive(Clone, Copy, Debug, Serialize, Deserialize, PartialEq)]
pub enum CRing { I64(i8), Big(i8), F2H, F3H, QH }

#[derive(Clone, Debug, Serialize, Deserialize)]
pub struct Case { pub iso: IsoSpec, pub c: CRing, pub reduced: bool, pub crossing: u16, pub threads: u8 }

fn ss_of(d: &Dg, c: CRing, red: bool) -> Result<i32, String> {
    let l = d.to_link();
    guard(|| match c {
        CRing::I64(v) => ss_invariant::<i64>(&l, &(v as i64), red),
        CRing::Big(v) => ss_invariant::<BigInt>(&l, &BigInt::from(v), red),
        CRing::F2H => ss_invariant::<Poly<'H', FF2>>(&l, &Poly::variable(), red),
        CRing::F3H => ss_invariant::<Poly<'H', FF<3>>>(&l, &Poly::variable(), red),
        CRing::QH => ss_invariant::<Poly<'H', Ratio<i64>>>(&l, &Poly::variable(), red),
    })
}

fn canon_checks<R>(d: &Dg, h: &R, red: bool, what: &str) -> Chk where R: yui::EucRing, for<'x> &'x R: yui::EucRingOps<R> {
    let l = d.to_link();
    let r = match guard(|| {
        let c = KhComplex::<R>::new(&l, h, &R::zero(), red);
        let zs = c.canon_cycles().clone();
        let mut msgs = vec![];
        let want = if red { 1 } else { 2 };
        if zs.len() != want { msgs.push(format!("{} canonical cycles reported, expected {want}", zs.len())); }
        for (k, z) in zs.iter().enumerate() {
            if z.is_zero() && !h.is_zero() { msgs.push(format!("canonical cycle #{k} is zero although h != 0")); }
            if !z.iter().all(|(x, _)| x.h_deg() == 0) { msgs.push(format!("canonical cycle #{k} has a term outside homological degree 0")); }
            let dz = c.d(0, z);
            if !dz.is_zero() { msgs.push(format!("canonical cycle #{k} is not a cycle: d z = {:?}", dz)); }
        }
        if !h.is_zero() {
            let kh = KhHomology::from(&c);
            let rk = kh[0].rank();
            for (k, z) in zs.iter().enumerate() {
                let v = kh[0].vectorize(z);
                if !v.iter().any(|(i, a)| i < rk && !a.is_zero()) { msgs.push(format!("the class of canonical cycle #{k} is torsion (no non-zero free coordinate in Kh^0 of rank {rk})")); }
            }
        }
        msgs
    }) { Ok(m) => m, Err(m) => return if is_arith_overflow(&m) { discard("machine-overflow") } else { bad(format!("{what}: library panicked: {m}")) } };
    ensure!(r.is_empty(), "{what}: {}", r.join("; "));
    Ok(())
}

fn lee_rank(d: &Dg, what: &str) -> Chk {
    let l = d.to_link();
    let ncomp = d.components().map(|c| c.len()).unwrap_or(0);
    let want = 1usize << ncomp;
    let r = guard(|| {
        let a = KhHomology::<BigInt>::new(&l, &BigInt::from(1), &BigInt::from(0), false);
        let b = KhHomology::<Ratio<i64>>::new(&l, &Ratio::from(0), &Ratio::from(1), false);
        let ta: usize = a.support().map(|i| a[i].rank()).sum(); let tora: usize = a.support().map(|i| a[i].tors().len()).sum();
        let tb: usize = b.support().map(|i| b[i].rank()).sum();
        (ta, tora, tb)
    });
    let (ta, tora, tb) = match r { Ok(v) => v, Err(m) => return if is_arith_overflow(&m) { discard("machine-overflow") } else { bad(format!("{what}: library panicked: {m}")) } };
    ensure!(tora == 0 && ta == want, "{what}: homology with (h,t) = (1,0) over Z has total rank {ta} and {tora} torsion summands; expected free of rank 2^{ncomp} = {want}");
    ensure!(tb == want, "{what}: homology with (h,t) = (0,1) over Q has total rank {tb}; expected 2^{ncomp} = {want}");
    Ok(())
}

fn run_case(c: &Case, tier: Tier) -> Chk<Pass> {
    let b = match build_iso(&c.iso) { Ok(b) => b, Err(e) => return discard(format!("diagram-build: {e}")) };
    let (cap_b, cap_m) = tier.pick((9usize, 13usize), (10usize, 16usize));
    if b.base.ncross() > cap_b || b.moved.ncross() > cap_m { return discard("size-cap") }
    if b.base.orient(0).is_err() || b.moved.orient(0).is_err() { return discard("diagram-invalid") }
    let ncomp = b.base.components().map(|c| c.len()).unwrap_or(0);
    let threads = [1usize, 2, 4, 16][c.threads as usize % 4];
    let what = format!("{:?} c={:?} reduced={} base={:?}", c.iso, c.c, c.reduced, b.base.x);
    let what = if what.len() > 1000 { format!("{}...", &what[..1000]) } else { what };
    // (c) Lee / Bar-Natan rank for every link
    with_threads(threads, || lee_rank(&b.base, &what))?;
    if ncomp != 1 || b.base.x.is_empty() || b.base.ncross() == 0 { return Ok(Pass::new().nt(ncomp >= 2).label("link-rank-only").label_if(ncomp >= 2, "multi-component")) }
    let pure = b.base.x.iter().all(|x| x.0 == CT::X);
    // a knot diagram with a crossing smoothed along the orientation (Src::Smoothed) is kept; other mixed diagrams are not PD codes
    let smoothed = matches!(c.iso.base.src, Src::Smoothed(..)) && c.iso.base.mods.is_empty();
    if !pure && !smoothed { return Ok(Pass::new().label("non-pd")) }
    // (a), (b) canonical cycles
    with_threads(threads, || match c.c {
        CRing::I64(v) => canon_checks::<i64>(&b.moved, &(v as i64), c.reduced, &what),
        CRing::Big(v) => canon_checks::<BigInt>(&b.moved, &BigInt::from(v), c.reduced, &what),
        CRing::F2H => canon_checks::<Poly<'H', FF2>>(&b.moved, &Poly::variable(), c.reduced, &what),
        CRing::F3H => canon_checks::<Poly<'H', FF<3>>>(&b.moved, &Poly::variable(), c.reduced, &what),
        CRing::QH => canon_checks::<Poly<'H', Ratio<i64>>>(&b.moved, &Poly::variable(), c.reduced, &what),
    })?;
    // h = 0: cycles of degree 0 (no claim about torsion)
    with_threads(threads, || canon_checks::<BigInt>(&b.base, &BigInt::zero(), c.reduced, &format!("{what} [h = 0]")))?;
    // (d) the s-type invariant: c must be a prime (non-zero non-unit)
    let cc = match c.c { CRing::I64(v) => CRing::I64(if v.abs() == 3 { 3 } else { 2 }), CRing::Big(v) => CRing::Big(if v.abs() == 3 { 3 } else { 2 }), o => o };
    let ovf = |m: String| -> Bad { if is_arith_overflow(&m) { Bad::Discard("machine-overflow".into()) } else { Bad::Fail(format!("{what}: ss_invariant panicked: {m}")) } };
    let s0 = with_threads(threads, || ss_of(&b.base, cc, c.reduced)).map_err(ovf)?;
    let s1 = with_threads(threads, || ss_of(&b.moved, cc, c.reduced)).map_err(ovf)?;
    ensure!(s0 == s1, "{what}: ss = {s0} for the base diagram but {s1} for the moved diagram {:?}", b.moved.x);
    let s2 = with_threads(threads, || ss_of(&b.base, cc, !c.reduced)).map_err(ovf)?;
    ensure!(s0 == s2, "{what}: ss differs between the reduced and the unreduced theory: {s0} vs {s2}");
    let sm = with_threads(threads, || ss_of(&b.base.mirror_type(), cc, c.reduced)).map_err(ovf)?;
    ensure!(sm == -s0, "{what}: ss(mirror) = {sm}, expected {}", -s0);
    ensure!(s0 % 2 == 0, "{what}: ss = {s0} is odd for a knot");
    if smoothed { if let Some(p) = b.base.purify() {
        // the same knot diagram written as a pure PD code (smoothed crossing removed, labels identified)
        if p.orient(0).map(|o| o.strands.len() == 1).unwrap_or(false) && p.ncross() > 0 {
            let sp = with_threads(threads, || ss_of(&p, cc, c.reduced)).map_err(ovf)?;
            ensure!(sp == s0, "{what}: ss = {s0} for the diagram with a smoothed crossing but {sp} for the same diagram as a pure PD code {:?}", p.x);
        }
    } }
    // crossing change (at a real crossing)
    let real: Vec<usize> = (0..b.base.x.len()).filter(|i| matches!(b.base.x[*i].0, CT::X | CT::Xm)).collect();
    let k = real[(c.crossing as usize * real.len()) >> 16];
    let o = b.base.orient(0).unwrap();
    let sign = o.signs[k].unwrap();
    let changed = b.base.crossing_change(k).map_err(Bad::Fail)?;
    let o2 = changed.orient(0).map_err(|e| Bad::Fail(format!("harness: crossing change produced an invalid diagram: {e}")))?;
    ensure!(o2.signs[k] == Some(-sign) && o2.strands.len() == 1, "harness: crossing change did not flip the sign");
    let sc = with_threads(threads, || ss_of(&changed, cc, c.reduced)).map_err(ovf)?;
    let (s_plus, s_minus) = if sign == 1 { (s0, sc) } else { (sc, s0) };
    ensure!(s_minus <= s_plus && s_plus <= s_minus + 2, "{what}: crossing change at crossing {k} (sign {sign}): ss(K+) = {s_plus}, ss(K-) = {s_minus} violates ss(K-) <= ss(K+) <= ss(K-) + 2; changed diagram {:?}", changed.x);
    let type_changed = own_jones(&changed).ok() != own_jones(&b.base).ok();
    let alternating_guess = b.base.x.iter().all(|x| x.0 == CT::X) && { let s: Vec<i32> = o.signs.iter().flatten().cloned().collect(); s.iter().all(|x| *x == s[0]) };
    Ok(Pass::new().nt(b.r23_moves > 0 || type_changed || !alternating_guess).label(format!("c:{:?}", match cc { CRing::I64(v) | CRing::Big(v) => format!("{v}"), o => format!("{:?}", o) }))
        .label_if(b.r23_moves > 0, "R2/R3/Markov-move").label_if(type_changed, "crossing-change-changes-knot").label_if(c.reduced, "reduced").label_if(s0 != 0, "ss-nonzero").label_if(smoothed, "smoothed-crossing-in-diagram"))
}

fn knot_names(maxc: usize) -> Vec<String> { pool_names(maxc).into_iter().filter(|n| !n.starts_with('L')).collect() }

impl Prop for C06 {
    type Case = Case;
    const ID: &'static str = "C06";
    fn rule() -> String {
        "case = (base: table knot / link with <= 9 (10) crossings or a braid closure, or (one in 16) a table link with one crossing between two components smoothed along the orientation and kept as a resolved crossing (a knot diagram; its ss must also equal that of the same diagram rewritten as a pure PD code), a history of braid and PD moves as in C02, c in {2, 3} over i64 / BigInt or c = H over F2[H], F3[H], Q[H], reduced flag, a crossing index, threads). \
         every link: Kh with (h,t) = (1,0) over Z is free of total rank 2^components, and with (0,1) over Q has total rank 2^components; \
         knots: KhComplex::new(l, h, 0, red) reports 2 (1 reduced) canonical cycles, all terms in homological degree 0, d z = 0 (also for h = 0), and for h != 0 each class has a non-zero free coordinate in Kh^0; \
         ss_invariant equal for the base and the moved diagram, for reduced and unreduced, negated by the mirror, even, and ss(K-) <= ss(K+) <= ss(K-) + 2 for the change of the chosen crossing (own PD rewriting). \
         non-trivial = a knot case with an R2/R3/stabilisation move, or a crossing change that changes the Jones polynomial, or a diagram with crossings of both signs".into()
    }
    fn strategy(tier: Tier) -> BoxedStrategy<Case> {
        let maxc = tier.pick(8usize, 9usize);
        let names = knot_names(maxc);
        let knot_base = prop::sample::select(names).prop_map(|n| DSpec { src: Src::Pool(n), mods: vec![] });
        let cr = prop_oneof![3 => Just(CRing::I64(2)), 2 => Just(CRing::I64(3)), 1 => Just(CRing::Big(2)), 1 => Just(CRing::Big(3)), 2 => Just(CRing::F2H), 2 => Just(CRing::F3H), 1 => Just(CRing::QH)];
        let links: Vec<String> = pool_names(maxc).into_iter().filter(|n| n.starts_with('L')).collect();
        let smoothed_base = (prop::sample::select(links), any::<u8>()).prop_map(|(n, k)| DSpec { src: Src::Smoothed(n, k), mods: vec![] });
        let iso = (prop_oneof![9 => knot_base.prop_map(Some), 1 => smoothed_base.prop_map(Some), 6 => Just(None)], iso_strategy(maxc, 4)).prop_map(|(kb, mut iso)| { if let Some(b) = kb { iso.base = b; } iso });
        (iso, cr, any::<bool>(), any::<u16>(), any::<u8>()).prop_map(|(iso, c, reduced, crossing, threads)| Case { iso, c, reduced, crossing, threads }).boxed()
    }
    fn cases(tier: Tier) -> u32 { tier.pick(2_500, 40_000) }
    fn shards(tier: Tier) -> usize { tier.pick(8, 16) }
    fn replay_repeats() -> usize { 5 }
    fn run(case: &Case, ctx: &Ctx) -> Outcome { to_outcome(run_case(case, ctx.tier)) }
}
