pub mod c01;
pub mod c02;
pub mod c03;
pub mod c04;
pub mod c05;
pub mod c06;
pub mod c07;
pub mod c08;
pub mod c09;
pub mod c10;
pub mod c11;
pub mod c12;
pub mod c13;
pub mod c14;
pub mod c15;
pub mod c16;
pub mod c17;
pub mod c18;
pub mod c19;
pub mod c20;

pub fn c13_perm(seed: u32, n: usize) -> Vec<usize> { c13::perm_of(seed, n) }
