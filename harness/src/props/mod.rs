pub mod c14;
pub mod c17;
