pub mod c17;
