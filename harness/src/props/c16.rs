//! C16 Polynomial and linear-combination types form the free algebra they denote.
//! Op histories on PolyBase<X,R> (8 monomial types x 5 coefficient rings), HPoly and Lc,
//! shadowed by a BTreeMap<exponent vector, reference coefficient> model.

use num_bigint::BigInt;
use num_traits::{One, Pow, Zero};
use proptest::prelude::*;
use serde::{Deserialize, Serialize};
use std::cmp::Ordering;
use std::collections::BTreeMap;

use yui::lc::{Free, Lc};
use yui::poly::{HPoly, Mono, MonoOrd, MultiVar, PolyBase, Var, Var2, Var3};
use yui::{GaussInt, Ratio, FF};

use crate::engine::*;
use crate::ensure;
use crate::kit::refalg::*;
use crate::kit::sc::Sc;

pub struct C16;

#[derive(Clone, Copy, Debug, Serialize, Deserialize, PartialEq, Eq, Hash)]
pub enum MTy { U1, L1, U2, L2, U3, L3, UN, LN }
#[derive(Clone, Copy, Debug, Serialize, Deserialize, PartialEq, Eq, Hash)]
pub enum CTy { I64, Big, Q, F3, Gauss }
#[derive(Clone, Copy, Debug, Serialize, Deserialize, PartialEq, Eq, Hash)]
pub enum Kind { Poly(MTy), HPoly, Lc }

/// a polynomial literal: list of (exponent vector, coefficient); coefficients are (a, b) small integers:
/// a for Z / F3, a/b' for Q (b' = |b|+1), a + b i for Z[i]
#[derive(Clone, Debug, Serialize, Deserialize)]
pub enum PVal {
    Lit(Vec<(Vec<i8>, i32, i32)>),
    Zero, One,
    Const(i32, i32),
    Mono(Vec<i8>),
    /// x_k - 1 / x_k + 1
    XMinus1(u8), XPlus1(u8),
    Acc, NegAcc, Prev(u16),
}

#[derive(Clone, Copy, Debug, Serialize, Deserialize, PartialEq)]
pub enum Form { VV, VR, RV, RR, AssignV, AssignR }
#[derive(Clone, Copy, Debug, Serialize, Deserialize, PartialEq)]
pub enum Bin { Add, Sub, Mul }

#[derive(Clone, Debug, Serialize, Deserialize)]
pub enum Op {
    Bin(Bin, Form, bool, PVal),
    Neg(bool),
    Scalar(i32, i32, bool),
    PowN(u8),
    /// compare monomials of acc and of the operand under both orders, and after multiplying by a monomial
    Orders(PVal, Vec<i8>),
    /// evaluate at a point (integer coefficients, usize exponents only)
    Eval(Vec<i8>, PVal),
    Rebuild,
    /// map_coeffs with a map that has a kernel: coefficients equal to the given value are sent to 0, the others multiplied by the second value
    MapCoeffs(i32, i32, i32),
}

#[derive(Clone, Debug, Serialize, Deserialize)]
pub struct Case { pub kind: Kind, pub cty: CTy, pub start: PVal, pub ops: Vec<Op> }

type Model = BTreeMap<Vec<i64>, RV>;

/// a coefficient beyond 2^4096: the history ends (repeated squaring would double the length at every step; only costs time)
fn coeffs_too_big(m: &Model) -> bool {
    m.values().any(|v| match v { RV::Z(x) => x.bits() > 4096, RV::Q(q) => q.numer().bits() > 4096 || q.denom().bits() > 4096, _ => false })
}

// ---------------------------------------------------------------------------
// monomial adapters

pub trait MX: Mono + MonoOrd + Clone + std::fmt::Debug + PartialEq {
    const NV: usize; // number of variables used by the generator
    const SIGNED: bool;
    fn mk(e: &[i64]) -> Self;
    /// exponent vector (length NV, or up to the largest index for multivariate)
    fn exps(&self) -> Vec<i64>;
    fn stores_zero_exponent(&self) -> bool { false }
}

fn norm_e(mut e: Vec<i64>) -> Vec<i64> { while e.last() == Some(&0) { e.pop(); } e }

macro_rules! impl_mx1 { ($I:ty, $s:expr) => {
    impl MX for Var<'x', $I> { const NV: usize = 1; const SIGNED: bool = $s;
        fn mk(e: &[i64]) -> Self { Var::from(e.get(0).cloned().unwrap_or(0) as $I) }
        fn exps(&self) -> Vec<i64> { vec![self.deg() as i64] } }
    impl MX for Var2<'x', 'y', $I> { const NV: usize = 2; const SIGNED: bool = $s;
        fn mk(e: &[i64]) -> Self { Var2::from((e.get(0).cloned().unwrap_or(0) as $I, e.get(1).cloned().unwrap_or(0) as $I)) }
        fn exps(&self) -> Vec<i64> { let d = self.deg(); vec![d.0 as i64, d.1 as i64] } }
    impl MX for Var3<'x', 'y', 'z', $I> { const NV: usize = 3; const SIGNED: bool = $s;
        fn mk(e: &[i64]) -> Self { Var3::from((e.get(0).cloned().unwrap_or(0) as $I, e.get(1).cloned().unwrap_or(0) as $I, e.get(2).cloned().unwrap_or(0) as $I)) }
        fn exps(&self) -> Vec<i64> { let d = self.deg(); vec![d.0 as i64, d.1 as i64, d.2 as i64] } }
    impl MX for MultiVar<'x', $I> { const NV: usize = 5; const SIGNED: bool = $s;
        fn mk(e: &[i64]) -> Self {
            // monomials in at most one variable go through the (index, exponent) constructor when the exponent is zero or odd
            // (x_i^0 must be the monomial 1), everything else through from_iter
            let nz: Vec<usize> = (0..e.len()).filter(|i| e[*i] != 0).collect();
            match nz.len() {
                0 => MultiVar::from((e.len() % 4, 0 as $I)),
                1 if e[nz[0]] % 2 != 0 => MultiVar::from((nz[0], e[nz[0]] as $I)),
                _ => MultiVar::from_iter(e.iter().enumerate().map(|(i, d)| (i, *d as $I))),
            }
        }
        fn exps(&self) -> Vec<i64> { let d = self.deg(); let n = d.max_index().map(|m| m + 1).unwrap_or(0); (0..n).map(|i| d[i] as i64).collect() }
        fn stores_zero_exponent(&self) -> bool { self.deg().iter().any(|(_, d)| *d == 0) } }
} }
impl_mx1!(usize, false);
impl_mx1!(isize, true);

// ---------------------------------------------------------------------------

fn coef(cty: CTy, a: i32, b: i32) -> RV {
    match cty {
        CTy::I64 | CTy::Big => RV::Z(bi(a as i64)),
        CTy::Q => RV::Q(qq(a as i64, (b.unsigned_abs() as i64 % 7) + 1)),
        CTy::F3 => RK::F(3).from_i64(a as i64),
        CTy::Gauss => RV::Quad(bi(a as i64), bi(b as i64 % 4)),
    }
}
fn rk(cty: CTy) -> RK { match cty { CTy::I64 | CTy::Big => RK::Z, CTy::Q => RK::Q, CTy::F3 => RK::F(3), CTy::Gauss => RK::Quad(-1) } }

fn m_add(k: &RK, a: &Model, b: &Model) -> Model {
    let mut r = a.clone();
    for (e, c) in b { let v = k.add(r.get(e).unwrap_or(&k.zero()), c); if k.is_zero(&v) { r.remove(e); } else { r.insert(e.clone(), v); } }
    r
}
fn m_neg(k: &RK, a: &Model) -> Model { a.iter().map(|(e, c)| (e.clone(), k.neg(c))).collect() }
fn m_scale(k: &RK, a: &Model, s: &RV) -> Model { a.iter().map(|(e, c)| (e.clone(), k.mul(c, s))).filter(|(_, c)| !k.is_zero(c)).collect() }
fn e_add(a: &[i64], b: &[i64]) -> Vec<i64> { let n = a.len().max(b.len()); norm_e((0..n).map(|i| a.get(i).unwrap_or(&0) + b.get(i).unwrap_or(&0)).collect()) }
fn m_mul(k: &RK, a: &Model, b: &Model) -> Model {
    let mut r = Model::new();
    for (e1, c1) in a { for (e2, c2) in b {
        let e = e_add(e1, e2); let v = k.add(r.get(&e).unwrap_or(&k.zero()), &k.mul(c1, c2));
        if k.is_zero(&v) { r.remove(&e); } else { r.insert(e, v); } } }
    r
}
fn e_cmp_lex(a: &[i64], b: &[i64]) -> Ordering { let n = a.len().max(b.len()); for i in 0..n { let o = a.get(i).unwrap_or(&0).cmp(b.get(i).unwrap_or(&0)); if o != Ordering::Equal { return o } } Ordering::Equal }
fn e_cmp_grlex(a: &[i64], b: &[i64]) -> Ordering { a.iter().sum::<i64>().cmp(&b.iter().sum::<i64>()).then_with(|| e_cmp_lex(a, b)) }

fn clamp_e(e: &[i8], nv: usize, signed: bool) -> Vec<i64> {
    norm_e((0..nv).map(|i| { let d = e.get(i).cloned().unwrap_or(0) as i64; if signed { d } else { d.abs() } }).collect())
}

fn resolve(v: &PVal, cty: CTy, nv: usize, signed: bool, acc: &Model, hist: &[Model]) -> Model {
    let k = rk(cty);
    let mut m = Model::new();
    let mut put = |m: &mut Model, e: Vec<i64>, c: RV| { let v = k.add(m.get(&e).unwrap_or(&k.zero()), &c); if k.is_zero(&v) { m.remove(&e); } else { m.insert(e, v); } };
    match v {
        PVal::Lit(ts) => for (e, a, b) in ts { put(&mut m, clamp_e(e, nv, signed), coef(cty, *a, *b)); },
        PVal::Zero => {}
        PVal::One => put(&mut m, vec![], k.one()),
        PVal::Const(a, b) => put(&mut m, vec![], coef(cty, *a, *b)),
        PVal::Mono(e) => put(&mut m, clamp_e(e, nv, signed), k.one()),
        PVal::XMinus1(i) | PVal::XPlus1(i) => {
            let mut e = vec![0i64; (*i as usize % nv) + 1]; *e.last_mut().unwrap() = 1;
            put(&mut m, e, k.one()); put(&mut m, vec![], if matches!(v, PVal::XMinus1(_)) { k.neg(&k.one()) } else { k.one() });
        }
        PVal::Acc => return acc.clone(),
        PVal::NegAcc => return m_neg(&k, acc),
        PVal::Prev(i) => return if hist.is_empty() { acc.clone() } else { hist[((*i as usize) * hist.len()) >> 16].clone() },
    }
    m
}

fn lib<R: Sc, T>(what: &str, f: impl FnOnce() -> T) -> Chk<T> {
    match guard(f) {
        Ok(v) => Ok(v),
        Err(m) => if R::machine() && is_arith_overflow(&m) { discard("machine-overflow") } else { bad(format!("{what}: panicked: {m}")) },
    }
}

fn build<X: MX, R>(m: &Model, rev: bool) -> Option<PolyBase<X, R>> where R: Sc + yui::Ring, for<'a> &'a R: yui::RingOps<R> {
    let mut terms: Vec<(X, R)> = vec![];
    for (e, c) in m { terms.push((X::mk(e), R::from_rv(c)?)); }
    if rev { terms.reverse(); }
    Some(PolyBase::from_iter(terms))
}

fn read<X: MX, R>(p: &PolyBase<X, R>) -> Chk<Model> where R: Sc + yui::Ring, for<'a> &'a R: yui::RingOps<R> {
    let k = R::rk();
    let mut m = Model::new();
    let mut n = 0;
    for (x, r) in p.iter() {
        n += 1;
        let c = r.to_rv();
        ensure!(!k.is_zero(&c), "a zero coefficient is stored (monomial {:?})", x);
        ensure!(!x.stores_zero_exponent(), "a zero exponent is stored in monomial {:?}", x);
        if let Err(e) = r.canonical() { return bad(format!("coefficient not canonical: {e}")) }
        let e = norm_e(x.exps());
        ensure!(m.insert(e.clone(), c).is_none(), "monomial with exponents {:?} occurs twice in iter()", e);
    }
    ensure!(n == p.nterms(), "nterms() = {} but iter() yields {n} terms", p.nterms());
    Ok(m)
}

fn show(m: &Model) -> String { format!("{:?}", m.iter().map(|(e, c)| (e.clone(), SV::of(c))).collect::<Vec<_>>()) }

fn check_state<X: MX, R>(p: &PolyBase<X, R>, model: &Model, what: &str) -> Chk where R: Sc + yui::Ring, for<'a> &'a R: yui::RingOps<R> {
    let k = R::rk();
    let got = match read(p) { Ok(m) => m, Err(Bad::Fail(e)) => return bad(format!("{what}: {e}")), Err(e) => return Err(e) };
    ensure!(got == *model, "{what}: terms {} != model {}", show(&got), show(model));
    ensure!(p.is_zero() == model.is_empty(), "{what}: is_zero() = {}, model has {} terms", p.is_zero(), model.len());
    let is_const = model.keys().all(|e| e.is_empty());
    ensure!(p.is_const() == is_const, "{what}: is_const() = {}, model {}", p.is_const(), show(model));
    let c0 = model.get(&vec![]).cloned().unwrap_or_else(|| k.zero());
    ensure!(p.const_term().to_rv() == c0, "{what}: const_term() = {:?}, model {:?}", p.const_term(), SV::of(&c0));
    ensure!(p.is_one() == (is_const && k.is_one(&c0)), "{what}: is_one() = {}, model {}", p.is_one(), show(model));
    // leading term = grlex maximum
    let lead = model.iter().max_by(|a, b| e_cmp_grlex(a.0, b.0));
    let (lx, lc) = p.lead_term();
    match lead {
        Some((e, c)) => {
            ensure!(norm_e(lx.exps()) == *e && lc.to_rv() == *c, "{what}: lead_term() = ({:?}, {:?}), model ({:?}, {:?})", lx, lc, e, SV::of(c));
            ensure!(p.lead_coeff().to_rv() == *c, "{what}: lead_coeff");
        }
        None => ensure!(k.is_zero(&lc.to_rv()), "{what}: lead_term of zero has coefficient {:?}", lc),
    }
    for (e, c) in model.iter().take(3) { ensure!(p.coeff(&X::mk(e)).to_rv() == *c, "{what}: coeff({:?})", e); }
    let absent = { let mut e = vec![0i64; X::NV]; e[0] = 9; e };
    if !model.contains_key(&norm_e(absent.clone())) { ensure!(k.is_zero(&p.coeff(&X::mk(&absent)).to_rv()), "{what}: coeff of an absent monomial is not zero"); }
    ensure!(p.is_mono() == (model.len() == 1 && k.is_one(model.values().next().unwrap())), "{what}: is_mono");
    Ok(())
}

fn apply<P>(b: Bin, form: Form, swap: bool, acc: &P, x: &P) -> P
where P: Clone + std::ops::Add<Output = P> + std::ops::Sub<Output = P> + std::ops::Mul<Output = P>
        + for<'a> std::ops::Add<&'a P, Output = P> + for<'a> std::ops::Sub<&'a P, Output = P> + for<'a> std::ops::Mul<&'a P, Output = P>
        + std::ops::AddAssign + std::ops::SubAssign + std::ops::MulAssign
        + for<'a> std::ops::AddAssign<&'a P> + for<'a> std::ops::SubAssign<&'a P> + for<'a> std::ops::MulAssign<&'a P>,
      for<'a> &'a P: std::ops::Add<P, Output = P> + std::ops::Sub<P, Output = P> + std::ops::Mul<P, Output = P>
        + std::ops::Add<&'a P, Output = P> + std::ops::Sub<&'a P, Output = P> + std::ops::Mul<&'a P, Output = P> {
    let (l, r) = if swap && !matches!(form, Form::AssignV | Form::AssignR) { (x, acc) } else { (acc, x) };
    macro_rules! go { ($o:tt, $oa:tt) => { match form {
        Form::VV => l.clone() $o r.clone(), Form::VR => l.clone() $o r, Form::RV => l $o r.clone(), Form::RR => l $o r,
        Form::AssignV => { let mut t = l.clone(); t $oa r.clone(); t }
        Form::AssignR => { let mut t = l.clone(); t $oa r; t }
    } } }
    match b { Bin::Add => go!(+, +=), Bin::Sub => go!(-, -=), Bin::Mul => go!(*, *=) }
}

trait EvalInt<X: MX>: Sized { fn eval_at(_p: &PolyBase<X, Self>, _pt: &[Self]) -> Option<Self> where Self: yui::Ring, for<'a> &'a Self: yui::RingOps<Self> { None } }
macro_rules! impl_eval_int { ($($R:ty),*) => { $(
    impl EvalInt<Var<'x', usize>> for $R { fn eval_at(p: &PolyBase<Var<'x', usize>, Self>, pt: &[Self]) -> Option<Self> { Some(p.eval(&pt[0])) } }
    impl EvalInt<Var2<'x', 'y', usize>> for $R { fn eval_at(p: &PolyBase<Var2<'x', 'y', usize>, Self>, pt: &[Self]) -> Option<Self> { Some(p.eval(&pt[0], &pt[1])) } }
    impl EvalInt<Var3<'x', 'y', 'z', usize>> for $R { fn eval_at(p: &PolyBase<Var3<'x', 'y', 'z', usize>, Self>, pt: &[Self]) -> Option<Self> { Some(p.eval(&pt[0], &pt[1], &pt[2])) } }
    impl EvalInt<MultiVar<'x', usize>> for $R {}
    impl EvalInt<Var<'x', isize>> for $R {} impl EvalInt<Var2<'x', 'y', isize>> for $R {} impl EvalInt<Var3<'x', 'y', 'z', isize>> for $R {} impl EvalInt<MultiVar<'x', isize>> for $R {}
)* } }
impl_eval_int!(i64, BigInt);
macro_rules! impl_eval_none { ($($R:ty),*) => { $(
    impl<X: MX> EvalInt<X> for $R {}
)* } }
impl_eval_none!(Ratio<i64>, FF<3>, GaussInt<i64>);

fn run_poly<X, R>(c: &Case) -> Chk<Pass>
where X: MX, R: Sc + yui::Ring + EvalInt<X>, for<'a> &'a R: yui::RingOps<R> {
    let k = R::rk();
    let (nv, signed) = (X::NV, X::SIGNED);
    let mut model = resolve(&c.start, c.cty, nv, signed, &Model::new(), &[]);
    let Some(mut acc) = lib::<R, _>("construct start", || build::<X, R>(&model, false))? else { return discard("unrepresentable") };
    check_state(&acc, &model, "start")?;
    let mut hist = vec![model.clone()];
    let (mut cancel, mut bigprod, mut steps) = (false, false, 0);
    for (i, op) in c.ops.iter().enumerate() {
        if coeffs_too_big(&model) { break }
        let what = format!("op #{i} {:?}", op);
        match op {
            Op::Bin(b, form, swap, v) => {
                let xm = resolve(v, c.cty, nv, signed, &model, &hist);
                let sw = *swap && !matches!(form, Form::AssignV | Form::AssignR);
                let (lm, rm) = if sw { (&xm, &model) } else { (&model, &xm) };
                if *b == Bin::Mul && lm.len() * rm.len() > 400 { continue }
                let new_m = match b { Bin::Add => m_add(&k, lm, rm), Bin::Sub => m_add(&k, lm, &m_neg(&k, rm)), Bin::Mul => m_mul(&k, lm, rm) };
                if new_m.len() > 60 || new_m.keys().any(|e| e.iter().any(|d| d.abs() > 60)) { break }
                let Some(x) = lib::<R, _>(&what, || build::<X, R>(&xm, true))? else { continue };
                check_state(&x, &xm, &format!("{what}: operand"))?;
                let naive = match b { Bin::Mul => { let mut s = std::collections::BTreeSet::new(); for e1 in lm.keys() { for e2 in rm.keys() { s.insert(e_add(e1, e2)); } } s.len() }
                                      _ => { let mut s: std::collections::BTreeSet<_> = lm.keys().cloned().collect(); s.extend(rm.keys().cloned()); s.len() } };
                if new_m.len() < naive { cancel = true; }
                if *b == Bin::Mul && lm.len() >= 2 && rm.len() >= 2 { bigprod = true; }
                acc = lib::<R, _>(&what, || apply::<PolyBase<X, R>>(*b, *form, *swap, &acc, &x))?;
                model = new_m; steps += 1;
                check_state(&x, &xm, &format!("{what}: operand after the operation"))?;
            }
            Op::Neg(by_ref) => { let a = acc.clone(); acc = lib::<R, _>(&what, || if *by_ref { -&a } else { -a.clone() })?; model = m_neg(&k, &model); steps += 1; }
            Op::Scalar(a, b, by_ref) => {
                let s = coef(c.cty, *a, *b);
                let Some(sr) = R::from_rv(&s) else { continue };
                let a0 = acc.clone();
                acc = lib::<R, _>(&what, || if *by_ref { let mut t = a0.clone(); t *= &sr; t } else { a0.clone() * sr.clone() })?;
                let nm = m_scale(&k, &model, &s);
                if nm.len() < model.len() { cancel = true; }
                model = nm; steps += 1;
            }
            Op::PowN(n) => {
                let n = (*n % 4) as usize;
                let mut nm: Model = [(vec![], k.one())].into_iter().collect();
                let mut too_big = false;
                for _ in 0..n { nm = m_mul(&k, &nm, &model); if nm.len() > 60 { too_big = true; break } }
                if too_big || nm.keys().any(|e| e.iter().any(|d| d.abs() > 60)) { continue }
                let a0 = acc.clone();
                acc = lib::<R, _>(&what, || (&a0).pow(n))?;
                model = nm; steps += 1;
            }
            Op::Orders(v, e3) => {
                let xm = resolve(v, c.cty, nv, signed, &model, &hist);
                let mut es: Vec<Vec<i64>> = model.keys().chain(xm.keys()).cloned().collect();
                es.push(vec![]); es.truncate(8);
                let shift = clamp_e(e3, nv, signed);
                for a in &es { for b in &es {
                    let (xa, xb) = (X::mk(a), X::mk(b));
                    let (l, g) = (xa.cmp_lex(&xb), xa.cmp_grlex(&xb));
                    ensure!(l == e_cmp_lex(a, b), "{what}: cmp_lex({:?},{:?}) = {:?}, model {:?}", a, b, l, e_cmp_lex(a, b));
                    ensure!(g == e_cmp_grlex(a, b), "{what}: cmp_grlex({:?},{:?}) = {:?}, model {:?}", a, b, g, e_cmp_grlex(a, b));
                    ensure!((l == Ordering::Equal) == (xa == xb), "{what}: cmp_lex Equal iff ==");
                    let (ya, yb) = (xa.clone() * X::mk(&shift), xb.clone() * X::mk(&shift));
                    ensure!(norm_e(ya.exps()) == e_add(a, &shift), "{what}: monomial product {:?} * {:?} = {:?}", a, shift, ya);
                    ensure!(ya.cmp_lex(&yb) == l && ya.cmp_grlex(&yb) == g, "{what}: order not compatible with multiplication by {:?} on ({:?},{:?})", shift, a, b);
                } }
            }
            Op::Eval(pt, v) => {
                if signed || !matches!(c.cty, CTy::I64 | CTy::Big) || nv > 3 { continue }
                let xm = resolve(v, c.cty, nv, signed, &model, &hist);
                let pts: Vec<i64> = (0..nv).map(|i| pt.get(i).cloned().unwrap_or(1) as i64 % 4).collect();
                let ev = |m: &Model| -> BigInt { m.iter().fold(BigInt::zero(), |s, (e, c)| { let RV::Z(c) = c else { unreachable!() };
                    s + c * (0..nv).fold(BigInt::one(), |p, i| p * num_traits::pow(bi(pts[i]), *e.get(i).unwrap_or(&0) as usize)) }) };
                let big = |m: &Model| m.keys().any(|e| e.iter().sum::<i64>() > 20);
                if big(&model) || big(&xm) { continue }
                let (want_a, want_x) = (ev(&model), ev(&xm));
                if c.cty == CTy::I64 && [&want_a, &want_x, &(&want_a * &want_x)].iter().any(|w| w.bits() > 60) { continue }
                let Some(x) = lib::<R, _>(&what, || build::<X, R>(&xm, false))? else { continue };
                let ptr: Vec<R> = pts.iter().map(|p| R::from_rv(&RV::Z(bi(*p))).unwrap()).collect();
                let sum_m = m_add(&k, &model, &xm); let prod_m = m_mul(&k, &model, &xm);
                if prod_m.len() > 60 { continue }
                let (Some(sum), Some(prod)) = (build::<X, R>(&sum_m, false), build::<X, R>(&prod_m, false)) else { continue };
                let a0 = &acc;
                let r = lib::<R, _>(&what, || (R::eval_at(a0, &ptr), R::eval_at(&x, &ptr), R::eval_at(&sum, &ptr), R::eval_at(&prod, &ptr)))?;
                if let (Some(ea), Some(ex), Some(es), Some(ep)) = r {
                    ensure!(ea.to_rv() == RV::Z(want_a.clone()), "{what}: eval(acc) at {:?} = {:?}, model {}", pts, ea, want_a);
                    ensure!(ex.to_rv() == RV::Z(want_x.clone()), "{what}: eval(x) at {:?} = {:?}, model {}", pts, ex, want_x);
                    ensure!(es.to_rv() == RV::Z(&want_a + &want_x), "{what}: eval not additive");
                    ensure!(ep.to_rv() == RV::Z(&want_a * &want_x), "{what}: eval not multiplicative");
                }
            }
            Op::MapCoeffs(a, b, m) => {
                let (kill, mul) = (coef(c.cty, *a, *b), coef(c.cty, *m, 1));
                let (Some(killr), Some(mulr)) = (R::from_rv(&kill), R::from_rv(&mul)) else { continue };
                let a0 = acc.clone();
                acc = lib::<R, _>(&what, || a0.map_coeffs(|r| if *r == killr { R::zero() } else { r * &mulr }))?;
                let nm: Model = model.iter().map(|(e, cf)| (e.clone(), if *cf == kill { k.zero() } else { k.mul(cf, &mul) })).filter(|(_, cf)| !k.is_zero(cf)).collect();
                if nm.len() < model.len() { cancel = true; }
                model = nm; steps += 1;
            }
            Op::Rebuild => {
                let Some(f) = lib::<R, _>(&what, || build::<X, R>(&model, true))? else { continue };
                ensure!(f == acc && acc == f, "{what}: acc != polynomial rebuilt from the same terms: {:?} vs {:?}", acc, f);
                // and a different one is different
                let mut other = model.clone();
                let e0 = vec![7i64];
                let v = k.add(other.get(&e0).unwrap_or(&k.zero()), &k.one());
                if k.is_zero(&v) { other.remove(&e0); } else { other.insert(e0, v); }
                if let Some(g) = build::<X, R>(&other, false) { ensure!(g != acc, "{what}: == true for different polynomials"); }
            }
        }
        check_state(&acc, &model, &format!("after {what}"))?;
        hist.push(model.clone());
    }
    Ok(Pass::new().nt(steps >= 1 && (cancel || bigprod)).label(format!("{:?}/{:?}", c.kind, c.cty)).label_if(cancel, "cancellation").label_if(bigprod, "product>=2x2"))
}

// ---- HPoly: c x^d
fn run_hpoly<R>(c: &Case) -> Chk<Pass> where R: Sc + yui::Ring, for<'a> &'a R: yui::RingOps<R> {
    let k = R::rk();
    let mono = |m: &Model| -> Option<(usize, RV)> { match m.len() { 0 => Some((0, k.zero())), 1 => m.iter().next().map(|(e, c)| (e.get(0).cloned().unwrap_or(0) as usize, c.clone())), _ => None } };
    let take1 = |m: Model| -> Model { m.into_iter().next().into_iter().collect() };
    let mk = |d: usize, c: &RV| -> Option<HPoly<'x', R>> { Some(HPoly::new(d, R::from_rv(c)?)) };
    let mut model = take1(resolve(&c.start, c.cty, 1, false, &Model::new(), &[]));
    let (d0, c0) = mono(&model).unwrap();
    let Some(mut acc) = mk(d0, &c0) else { return discard("unrepresentable") };
    let (mut steps, mut rejected, mut cancel) = (0, false, false);
    for (i, op) in c.ops.iter().enumerate() {
        if coeffs_too_big(&model) { break }
        let what = format!("op #{i} {:?} (HPoly)", op);
        if let Op::Bin(b, form, swap, v) = op {
            let xm = take1(resolve(v, c.cty, 1, false, &model, &[]));
            let (dx, cx) = mono(&xm).unwrap();
            let Some(x) = mk(dx, &cx) else { continue };
            let sw = *swap && !matches!(form, Form::AssignV | Form::AssignR);
            let (lm, rm) = if sw { (&xm, &model) } else { (&model, &xm) };
            let new_m = match b { Bin::Add => m_add(&k, lm, rm), Bin::Sub => m_add(&k, lm, &m_neg(&k, rm)), Bin::Mul => m_mul(&k, lm, rm) };
            let r = guard(|| apply::<HPoly<'x', R>>(*b, *form, *swap, &acc, &x));
            if new_m.len() > 1 {
                // inhomogeneous sum: documented rejection
                ensure!(r.is_err(), "{what}: inhomogeneous sum accepted, giving {:?}", r.ok());
                rejected = true;
                continue;
            }
            if new_m.keys().any(|e| e.get(0).cloned().unwrap_or(0) > 200) { break }
            let r = match r { Ok(v) => v, Err(m) => if R::machine() && is_arith_overflow(&m) { return discard("machine-overflow") } else { return bad(format!("{what}: panicked: {m}")) } };
            if new_m.is_empty() && !(lm.is_empty() || rm.is_empty()) { cancel = true; }
            acc = r; model = new_m; steps += 1;
        } else if let Op::Neg(by_ref) = op {
            let a = acc.clone(); acc = lib::<R, _>(&what, || if *by_ref { -&a } else { -a.clone() })?; model = m_neg(&k, &model); steps += 1;
        } else { continue }
        let (d, cm) = mono(&model).unwrap();
        ensure!(acc.coeff().to_rv() == cm, "after {what}: coefficient {:?} != model {:?}", acc.coeff(), SV::of(&cm));
        ensure!(k.is_zero(&cm) || acc.deg() == d, "after {what}: degree {} != model {d}", acc.deg());
        ensure!(acc.is_zero() == k.is_zero(&cm), "after {what}: is_zero");
        ensure!(acc.is_one() == (d == 0 && k.is_one(&cm)), "after {what}: is_one");
        if let Some(f) = mk(d, &cm) { ensure!(f == acc, "after {what}: != fresh value"); }
        if let Some(f) = mk(d + 1, &cm) { ensure!((f == acc) == k.is_zero(&cm), "after {what}: == across degrees"); }
    }
    Ok(Pass::new().nt(steps >= 1 && (rejected || cancel)).label(format!("HPoly/{:?}", c.cty)).label_if(rejected, "inhomogeneous-rejected"))
}

// ---- Lc<Free<i32>, R>
fn run_lc<R>(c: &Case) -> Chk<Pass> where R: Sc + yui::Ring, for<'a> &'a R: yui::RingOps<R> {
    let k = R::rk();
    type G = Free<i32>;
    let build = |m: &Model, rev: bool| -> Option<Lc<G, R>> {
        let mut t: Vec<(G, R)> = vec![]; for (e, c) in m { t.push((Free(e.get(0).cloned().unwrap_or(0) as i32), R::from_rv(c)?)); }
        if rev { t.reverse(); } Some(Lc::from_iter(t)) };
    let state = |z: &Lc<G, R>, m: &Model, what: &str| -> Chk {
        let mut got = Model::new();
        for (x, r) in z.iter() { let cv = r.to_rv(); ensure!(!k.is_zero(&cv), "{what}: zero coefficient stored"); got.insert(norm_e(vec![x.0 as i64]), cv); }
        ensure!(got == *m, "{what}: terms {} != model {}", show(&got), show(m));
        ensure!(z.nterms() == m.len() && z.is_zero() == m.is_empty(), "{what}: nterms/is_zero");
        ensure!(z.is_gen() == (m.len() == 1 && k.is_one(m.values().next().unwrap())), "{what}: is_gen");
        Ok(()) };
    let mut model = resolve(&c.start, c.cty, 1, true, &Model::new(), &[]);
    let Some(mut acc) = build(&model, false) else { return discard("unrepresentable") };
    state(&acc, &model, "start")?;
    let (mut steps, mut cancel) = (0, false);
    let mut hist = vec![model.clone()];
    for (i, op) in c.ops.iter().enumerate() {
        if coeffs_too_big(&model) { break }
        let what = format!("op #{i} {:?} (Lc)", op);
        match op {
            Op::Bin(b, form, swap, v) if *b != Bin::Mul => {
                let xm = resolve(v, c.cty, 1, true, &model, &hist);
                let Some(x) = build(&xm, true) else { continue };
                let sw = *swap && !matches!(form, Form::AssignV | Form::AssignR);
                let (lm, rm) = if sw { (&xm, &model) } else { (&model, &xm) };
                let new_m = if *b == Bin::Add { m_add(&k, lm, rm) } else { m_add(&k, lm, &m_neg(&k, rm)) };
                let mut s: std::collections::BTreeSet<_> = lm.keys().cloned().collect(); s.extend(rm.keys().cloned());
                if new_m.len() < s.len() { cancel = true; }
                let (l, r) = if sw { (&x, &acc) } else { (&acc, &x) };
                acc = lib::<R, _>(&what, || match (b, form) {
                    (Bin::Add, Form::VV) => l.clone() + r.clone(), (Bin::Add, Form::VR) => l.clone() + r, (Bin::Add, Form::RV) => l + r.clone(), (Bin::Add, Form::RR) => l + r,
                    (Bin::Add, Form::AssignV) => { let mut t = l.clone(); t += r.clone(); t } (Bin::Add, Form::AssignR) => { let mut t = l.clone(); t += r; t }
                    (_, Form::VV) => l.clone() - r.clone(), (_, Form::VR) => l.clone() - r, (_, Form::RV) => l - r.clone(), (_, Form::RR) => l - r,
                    (_, Form::AssignV) => { let mut t = l.clone(); t -= r.clone(); t } (_, Form::AssignR) => { let mut t = l.clone(); t -= r; t }
                })?;
                model = new_m; steps += 1;
            }
            Op::Neg(by_ref) => { let a = acc.clone(); acc = lib::<R, _>(&what, || if *by_ref { -&a } else { -a.clone() })?; model = m_neg(&k, &model); steps += 1; }
            Op::Scalar(a, b, by_ref) => {
                let s = coef(c.cty, *a, *b); let Some(sr) = R::from_rv(&s) else { continue };
                let a0 = acc.clone();
                acc = lib::<R, _>(&what, || if *by_ref { let mut t = a0.clone(); t *= &sr; t } else { a0.clone() * sr.clone() })?;
                let nm = m_scale(&k, &model, &s); if nm.len() < model.len() { cancel = true; }
                model = nm; steps += 1;
            }
            Op::Rebuild => { if let Some(f) = build(&model, true) { ensure!(f == acc, "{what}: != rebuilt"); } }
            Op::MapCoeffs(a, b, m) => {
                let (kill, mul) = (coef(c.cty, *a, *b), coef(c.cty, *m, 1));
                let (Some(killr), Some(mulr)) = (R::from_rv(&kill), R::from_rv(&mul)) else { continue };
                let a0 = acc.clone();
                acc = lib::<R, _>(&what, || if *m % 2 == 0 { a0.map_coeffs(|r| if *r == killr { R::zero() } else { r * &mulr }) } else { a0.clone().into_map_coeffs(|r| if r == killr { R::zero() } else { &r * &mulr }) })?;
                let nm: Model = model.iter().map(|(e, cf)| (e.clone(), if *cf == kill { k.zero() } else { k.mul(cf, &mul) })).filter(|(_, cf)| !k.is_zero(cf)).collect();
                if nm.len() < model.len() { cancel = true; }
                model = nm; steps += 1;
                // merging generators: x -> x / 2 (terms may add up and cancel)
                let a1 = acc.clone();
                acc = lib::<R, _>(&what, || a1.map_gens(|x| Free(x.0.div_euclid(2))))?;
                let mut mm = Model::new();
                for (e, cf) in &model { let g = norm_e(vec![e.get(0).cloned().unwrap_or(0).div_euclid(2)]); let v = k.add(mm.get(&g).unwrap_or(&k.zero()), cf); if k.is_zero(&v) { mm.remove(&g); } else { mm.insert(g, v); } }
                if mm.len() < model.len() { cancel = true; }
                model = mm;
            }
            _ => continue,
        }
        state(&acc, &model, &format!("after {what}"))?;
        hist.push(model.clone());
    }
    Ok(Pass::new().nt(steps >= 1 && cancel).label(format!("Lc/{:?}", c.cty)).label_if(cancel, "cancellation"))
}

macro_rules! by_coef { ($cty:expr, $f:ident < $($x:ty),* > ($c:expr)) => { match $cty {
    CTy::I64 => $f::<$($x,)* i64>($c), CTy::Big => $f::<$($x,)* BigInt>($c), CTy::Q => $f::<$($x,)* Ratio<i64>>($c),
    CTy::F3 => $f::<$($x,)* FF<3>>($c), CTy::Gauss => $f::<$($x,)* GaussInt<i64>>($c) } } }

fn run_case(c: &Case) -> Chk<Pass> {
    let r = guard(|| match c.kind {
        Kind::Poly(MTy::U1) => by_coef!(c.cty, run_poly<Var<'x', usize>>(c)),
        Kind::Poly(MTy::L1) => by_coef!(c.cty, run_poly<Var<'x', isize>>(c)),
        Kind::Poly(MTy::U2) => by_coef!(c.cty, run_poly<Var2<'x', 'y', usize>>(c)),
        Kind::Poly(MTy::L2) => by_coef!(c.cty, run_poly<Var2<'x', 'y', isize>>(c)),
        Kind::Poly(MTy::U3) => by_coef!(c.cty, run_poly<Var3<'x', 'y', 'z', usize>>(c)),
        Kind::Poly(MTy::L3) => by_coef!(c.cty, run_poly<Var3<'x', 'y', 'z', isize>>(c)),
        Kind::Poly(MTy::UN) => by_coef!(c.cty, run_poly<MultiVar<'x', usize>>(c)),
        Kind::Poly(MTy::LN) => by_coef!(c.cty, run_poly<MultiVar<'x', isize>>(c)),
        Kind::HPoly => by_coef!(c.cty, run_hpoly<>(c)),
        Kind::Lc => by_coef!(c.cty, run_lc<>(c)),
    });
    match r {
        Ok(r) => r,
        Err(m) => if matches!(c.cty, CTy::I64 | CTy::Q | CTy::Gauss) && is_arith_overflow(&m) { discard("machine-overflow") } else { bad(format!("panicked: {m}")) },
    }
}

// ---------------------------------------------------------------------------

fn exps() -> BoxedStrategy<Vec<i8>> { prop::collection::vec(prop_oneof![3 => Just(0i8), 5 => -4i8..=5], 0..5usize).boxed() }

fn pval(tier: Tier) -> BoxedStrategy<PVal> {
    let n = tier.pick(8usize, 24usize);
    let c = || prop_oneof![6 => -4i32..=4, 1 => Just(3i32), 1 => Just(-3i32), 1 => any::<i16>().prop_map(|x| x as i32)];
    prop_oneof![
        10 => prop::collection::vec((exps(), c(), c()), 0..n).prop_map(PVal::Lit),
        1 => Just(PVal::Zero), 1 => Just(PVal::One),
        2 => (c(), c()).prop_map(|(a, b)| PVal::Const(a, b)),
        2 => exps().prop_map(PVal::Mono),
        1 => (0u8..5).prop_map(PVal::XMinus1), 1 => (0u8..5).prop_map(PVal::XPlus1),
        2 => Just(PVal::Acc), 2 => Just(PVal::NegAcc), 2 => any::<u16>().prop_map(PVal::Prev),
    ].boxed()
}

fn op(tier: Tier) -> BoxedStrategy<Op> {
    let form = prop_oneof![Just(Form::VV), Just(Form::VR), Just(Form::RV), Just(Form::RR), Just(Form::AssignV), Just(Form::AssignR)];
    let bin = prop_oneof![3 => Just(Bin::Add), 3 => Just(Bin::Sub), 4 => Just(Bin::Mul)];
    prop_oneof![
        14 => (bin, form, any::<bool>(), pval(tier)).prop_map(|(b, f, s, v)| Op::Bin(b, f, s, v)),
        1 => any::<bool>().prop_map(Op::Neg),
        2 => (-4i32..=4, -3i32..=3, any::<bool>()).prop_map(|(a, b, r)| Op::Scalar(a, b, r)),
        1 => (0u8..4).prop_map(Op::PowN),
        2 => (pval(tier), exps()).prop_map(|(v, e)| Op::Orders(v, e)),
        2 => (prop::collection::vec(-3i8..=3, 3), pval(tier)).prop_map(|(p, v)| Op::Eval(p, v)),
        1 => Just(Op::Rebuild),
        2 => (-3i32..=3, -2i32..=2, -2i32..=3).prop_map(|(a, b, m)| Op::MapCoeffs(a, b, m)),
    ].boxed()
}

impl Prop for C16 {
    type Case = Case;
    const ID: &'static str = "C16";
    fn rule() -> String {
        "case = (type in {Poly, LPoly, Poly2, LPoly2, Poly3, LPoly3, PolyN, LPolyN} x coefficient ring in {i64, BigInt, Ratio<i64>, FF<3>, GaussInt<i64>}, or HPoly, or Lc<Free<i32>,R>; start literal; op history 0..10: + - * in all operator forms, neg, scalar *, pow, monomial-order queries, eval, rebuild) \
         mirrored in a BTreeMap<exponent vector, reference coefficient>; after every step the term set read through iter() equals the model, no zero coefficient / zero exponent stored, \
         is_zero, is_const, is_one, is_mono, nterms, const_term, lead_term (grlex), coeff equal the model's, == iff models equal; cmp_lex/cmp_grlex equal the model order and are compatible with multiplication; eval is additive and multiplicative and equals the model evaluation. \
         non-trivial = >= 1 arithmetic step and (a term lost by cancellation, or a product with >= 2 terms on both sides; HPoly: an inhomogeneous sum rejected or a cancellation)".into()
    }
    fn assumptions() -> Vec<String> { vec![
        "eval is checked where the library provides it (integer coefficients, usize exponents, 1-3 variables)".into(),
        "HPoly: a sum of different degrees is a documented rejection (panic)".into(),
        "Lc::add_pair (low-level, documented as not cleaning) is not exercised".into() ] }
    fn strategy(tier: Tier) -> BoxedStrategy<Case> {
        let kind = prop_oneof![
            16 => prop::sample::select(vec![MTy::U1, MTy::L1, MTy::U2, MTy::L2, MTy::U3, MTy::L3, MTy::UN, MTy::LN]).prop_map(Kind::Poly),
            1 => Just(Kind::HPoly), 2 => Just(Kind::Lc)];
        let cty = prop::sample::select(vec![CTy::I64, CTy::Big, CTy::Q, CTy::F3, CTy::Gauss]);
        let n = tier.pick(10usize, 24usize);
        (kind, cty, pval(tier), prop::collection::vec(op(tier), 0..n)).prop_map(|(kind, cty, start, ops)| {
            let start = match start { PVal::Acc | PVal::NegAcc | PVal::Prev(_) => PVal::One, s => s };
            Case { kind, cty, start, ops }
        }).boxed()
    }
    fn cases(tier: Tier) -> u32 { tier.pick(300_000, 6_000_000) }
    fn shards(_: Tier) -> usize { 16 }
    fn run(case: &Case, _ctx: &Ctx) -> Outcome { to_outcome(run_case(case)) }
}
