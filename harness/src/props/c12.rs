//! C12 Sparse kernels: triangular solve, Schur complement, direct-sum splitting.

use proptest::prelude::*;
use serde::{Deserialize, Serialize};
use std::collections::BTreeSet;
use yui::{GaussInt, Ratio, FF};
use yui_matrix::sparse::decomp::dir_sum_decomp;
use yui_matrix::sparse::schur::Schur;
use yui_matrix::sparse::triang::{inv_triangular, solve_triangular, solve_triangular_left, solve_triangular_vec, TriangularType};
use yui_matrix::sparse::{SpMat, SpVec};
use yui_matrix::MatTrait;

use crate::engine::*;
use crate::ensure;
use crate::kit::pools::with_threads;
use crate::kit::refalg::*;
use crate::kit::refmat::*;
use crate::kit::sc::Sc;

pub struct C12;

#[derive(Clone, Copy, Debug, Serialize, Deserialize, PartialEq)]
pub enum RTy { I64, Q, F5, Gauss }

#[derive(Clone, Debug, Serialize, Deserialize)]
pub struct Tri { pub n: u8, pub upper: bool, pub diag: Vec<u8>, pub off: Vec<(u8, u8, i8)>, pub zeros: Vec<(u8, u8)> }

#[derive(Clone, Debug, Serialize, Deserialize)]
pub enum Kind {
    /// a sequence of solves A X = Y (several right-hand sides) on one pool
    Solve { a: Tri, ys: Vec<(u8, Vec<(u8, u8, i8)>, Vec<(u8, u8)>)> },
    /// M = [A B; C D] with A r x r triangular
    Schur { a: Tri, m_extra: u8, n_extra: u8, b: Vec<(u8, u8, i8)>, c: Vec<(u8, u8, i8)>, d: Vec<(u8, u8, i8)>, zeros: Vec<(u8, u8)> },
    /// direct sum of blocks + zero rows/cols, conjugated by permutations
    Decomp { blocks: Vec<(u8, u8, Vec<(u8, u8, i8)>)>, zrows: u8, zcols: u8, ps: u32, qs: u32, stored_zeros: Vec<(u8, u8)>,
        /// Some(seed): every block is instead a *tree-shaped* block on 2..65 columns (column j > 0 shares one row with a pseudo-random
        /// earlier column, and every column has 0..12 private rows): sparsely connected column graphs with many columns,
        /// the shape on which a parallel union-find that loses a link splits a component
        #[serde(default)] tree: Option<u32> },
}

#[derive(Clone, Debug, Serialize, Deserialize)]
pub struct Case { pub rty: RTy, pub threads: u8, pub kind: Kind }

fn unit_list(rty: RTy) -> Vec<RV> {
    match rty {
        RTy::I64 => vec![RV::Z(bi(1)), RV::Z(bi(-1))],
        RTy::Q => vec![RV::Q(qq(1, 1)), RV::Q(qq(-1, 1)), RV::Q(qq(2, 1)), RV::Q(qq(1, 2)), RV::Q(qq(-3, 1)), RV::Q(qq(2, 3))],
        RTy::F5 => (1..5).map(RV::F).collect(),
        RTy::Gauss => vec![RV::Quad(bi(1), bi(0)), RV::Quad(bi(0), bi(1)), RV::Quad(bi(-1), bi(0)), RV::Quad(bi(0), bi(-1))],
    }
}
fn rk(rty: RTy) -> RK { match rty { RTy::I64 => RK::Z, RTy::Q => RK::Q, RTy::F5 => RK::F(5), RTy::Gauss => RK::Quad(-1) } }

fn tri_model(rty: RTy, t: &Tri, maxn: usize) -> RM {
    let k = rk(rty); let n = t.n as usize % (maxn + 1);
    let us = unit_list(rty);
    let mut a = RM::zero(k, n, n);
    for i in 0..n { a.a[i][i] = us[t.diag.get(i).cloned().unwrap_or(0) as usize % us.len()].clone(); }
    if n > 1 { for (i, j, x) in &t.off {
        let (mut i, mut j) = (*i as usize % n, *j as usize % n);
        if i == j { continue }
        if (t.upper && i > j) || (!t.upper && i < j) { std::mem::swap(&mut i, &mut j); }
        a.a[i][j] = k.add(&a.a[i][j], &k.from_i64(*x as i64));
    } }
    a
}

fn entries_model(k: RK, m: usize, n: usize, e: &[(u8, u8, i8)]) -> RM {
    let mut a = RM::zero(k, m, n);
    if m == 0 || n == 0 { return a }
    for (i, j, x) in e { let (i, j) = (*i as usize % m, *j as usize % n); a.a[i][j] = k.add(&a.a[i][j], &k.from_i64(*x as i64)); }
    a
}

/// sparse matrix with the model's entries, plus explicit stored zeros at the listed positions (where the model is zero)
fn to_sp<R>(m: &RM, zeros: &[(u8, u8)]) -> SpMat<R> where R: Sc + yui::Ring, for<'a> &'a R: yui::RingOps<R> {
    let zs: BTreeSet<(usize, usize)> = if m.m == 0 || m.n == 0 { BTreeSet::new() } else { zeros.iter().map(|(i, j)| (*i as usize % m.m, *j as usize % m.n)).collect() };
    let cols = (0..m.n).map(|j| {
        let ents: Vec<(usize, R)> = (0..m.m).filter(|i| !m.k.is_zero(&m.a[*i][j]) || zs.contains(&(*i, j))).map(|i| (i, R::from_rv(&m.a[i][j]).unwrap())).collect();
        SpVec::from_sorted_entries(m.m, ents)
    });
    SpMat::from_col_vecs(m.m, cols)
}

/// reference A^-1 Y for a triangular A with unit diagonal entries (substitution)
fn ref_solve(a: &RM, y: &RM, upper: bool) -> RM {
    let k = a.k; let n = a.m;
    let mut x = RM::zero(k, n, y.n);
    for c in 0..y.n {
        let order: Vec<usize> = if upper { (0..n).rev().collect() } else { (0..n).collect() };
        for &i in &order {
            let mut s = y.a[i][c].clone();
            for j in 0..n { if j != i && !k.is_zero(&a.a[i][j]) { s = k.sub(&s, &k.mul(&a.a[i][j], &x.a[j][c])); } }
            x.a[i][c] = k.mul(&s, &k.inv(&a.a[i][i]).unwrap());
        }
    }
    x
}

fn call<T>(what: &str, f: impl FnOnce() -> T) -> Chk<T> { match guard(f) { Ok(v) => Ok(v), Err(m) => if is_arith_overflow(&m) { discard("machine-overflow") } else { bad(format!("{what}: panicked: {m}")) } } }

fn rd<R: Sc>(a: &SpMat<R>, what: &str) -> Chk<RM> { match sp_to_rm(a) { Ok(m) => Ok(m), Err(e) => bad(format!("{what}: {e}")) } }

fn run_ty<R>(c: &Case, tier: Tier) -> Chk<Pass> where R: Sc + yui::Ring, for<'a> &'a R: yui::RingOps<R> {
    let k = rk(c.rty);
    let maxn = tier.pick(12usize, 25usize);
    let threads = [1usize, 2, 3, 4, 8, 16][c.threads as usize % 6];
    let mut pass = Pass::new().label(format!("ring:{:?}", c.rty)).label(format!("threads:{threads}"));
    match &c.kind {
        Kind::Solve { a, ys } => {
            let am = tri_model(c.rty, a, maxn); let n = am.m;
            let tt = if a.upper { TriangularType::Upper } else { TriangularType::Lower };
            let asp: SpMat<R> = to_sp(&am, &a.zeros);
            ensure!(rd(&asp, "A")? == am, "harness: A construction");
            let what = format!("[{}] {} A = {}", k.name(), if a.upper { "upper" } else { "lower" }, am.show());
            let mut nontriv = false;
            // the whole sequence runs on one pool
            let results: Vec<Chk> = with_threads(threads, || ys.iter().enumerate().map(|(s, (kk, ye, yz))| -> Chk {
                let kc = *kk as usize % 13;
                let ym = entries_model(k, n, kc, ye);
                let ysp: SpMat<R> = to_sp(&ym, yz);
                let w = format!("{what}, solve #{s}, Y = {}", ym.show());
                let x = call(&w, || solve_triangular(tt, &asp, &ysp))?;
                let xm = rd(&x, &w)?;
                ensure!(xm.shape() == (n, kc), "{w}: X has shape {:?}", xm.shape());
                ensure!(am.mul(&xm) == ym, "{w}: A X != Y (X = {})", xm.show());
                // left variant: X A = Y^T ...
                let ytm = ym.transpose(); let ytsp: SpMat<R> = to_sp(&ytm, &[]);
                let xl = call(&w, || solve_triangular_left(tt, &asp, &ytsp))?;
                let xlm = rd(&xl, &w)?;
                ensure!(xlm.mul(&am) == ytm, "{w}: X A != Y for the left solve (X = {})", xlm.show());
                // vector variant on the first column
                if kc > 0 { let v: SpVec<R> = rm_to_spvec(&ym.col(0)).unwrap(); let xv = call(&w, || solve_triangular_vec(tt, &asp, &v))?;
                    let xvm = match spvec_to_rm(&xv) { Ok(m) => m, Err(e) => return bad(format!("{w}: {e}")) };
                    ensure!(am.mul(&xvm) == ym.col(0), "{w}: A x != y for solve_triangular_vec (x = {})", xvm.show()); }
                // same value on one thread
                let x1 = with_threads(1, || guard(|| solve_triangular(tt, &asp, &ysp)));
                if let Ok(x1) = x1 { ensure!(rd(&x1, &w)? == xm, "{w}: result on {threads} threads differs from the result on 1 thread"); }
                Ok(())
            }).collect());
            for r in results { r?; }
            let inv = with_threads(threads, || call(&what, || inv_triangular(tt, &asp)))?;
            let im = rd(&inv, &what)?;
            ensure!(im.mul(&am).is_id() && am.mul(&im).is_id(), "{what}: inv_triangular(A) A != I (inverse = {})", im.show());
            if ys.len() >= 2 || ys.iter().any(|y| (y.0 as usize % 13) > threads) { nontriv = n >= 2; }
            let nonone = (0..n).any(|i| !k.is_one(&am.a[i][i]) && !k.is_one(&k.neg(&am.a[i][i])));
            pass = pass.nt(nontriv).label("solve").label_if(nonone, "diag-unit-not-pm1").label_if(!a.zeros.is_empty() && n > 0, "stored-zeros").label_if(n == 0, "n=0");
        }
        Kind::Schur { a, m_extra, n_extra, b, c: cc, d, zeros } => {
            let am = tri_model(c.rty, a, maxn.min(10)); let r = am.m;
            let (me, ne) = (*m_extra as usize % 8, *n_extra as usize % 8);
            let (bm, cm, dm) = (entries_model(k, r, ne, b), entries_model(k, me, r, cc), entries_model(k, me, ne, d));
            let mm = RM::blocks(&am, &bm, &cm, &dm);
            let tt = if a.upper { TriangularType::Upper } else { TriangularType::Lower };
            let mut zs = a.zeros.clone(); zs.extend(zeros.iter().cloned());
            let msp: SpMat<R> = to_sp(&mm, &zs);
            let what = format!("[{}] {} r = {r}, M = {}", k.name(), if a.upper { "upper" } else { "lower" }, mm.show());
            let sch = with_threads(threads, || call(&what, || Schur::from_partial_triangular(tt, &msp, r, true)))?;
            let s = rd(sch.complement(), &what)?;
            let want = dm.sub(&cm.mul(&ref_solve(&am, &bm, a.upper)));
            ensure!(s == want, "{what}: S = {} != D - C A^-1 B = {}", s.show(), want.show());
            let (ts, tg) = (sch.trans_src().unwrap(), sch.trans_tgt().unwrap());
            let (fs, bs, ft, bt) = (rd(&ts.forward_mat(), &what)?, rd(&ts.backward_mat(), &what)?, rd(&tg.forward_mat(), &what)?, rd(&tg.backward_mat(), &what)?);
            ensure!(ts.src_dim() == mm.n && ts.tgt_dim() == mm.n - r && tg.src_dim() == mm.m && tg.tgt_dim() == mm.m - r, "{what}: transform dimensions: source {} -> {}, target {} -> {}; expected {} -> {} and {} -> {}", ts.src_dim(), ts.tgt_dim(), tg.src_dim(), tg.tgt_dim(), mm.n, mm.n - r, mm.m, mm.m - r);
            ensure!(fs.shape() == (mm.n - r, mm.n) && bs.shape() == (mm.n, mm.n - r) && ft.shape() == (mm.m - r, mm.m) && bt.shape() == (mm.m, mm.m - r), "{what}: shapes of the transfer matrices F_src {:?}, B_src {:?}, F_tgt {:?}, B_tgt {:?}", fs.shape(), bs.shape(), ft.shape(), bt.shape());
            ensure!(ft.mul(&mm).mul(&bs) == s, "{what}: F_tgt M B_src != S  (F_tgt = {}, B_src = {})", ft.show(), bs.show());
            ensure!(fs.mul(&bs).is_id(), "{what}: F_src B_src != I"); ensure!(ft.mul(&bt).is_id(), "{what}: F_tgt B_tgt != I");
            ensure!(ts.src_dim() == mm.n && ts.tgt_dim() == mm.n - r && tg.src_dim() == mm.m && tg.tgt_dim() == mm.m - r, "{what}: transform dimensions");
            // chain-map style identities: S F_src = F_tgt M and M B_src = B_tgt S
            ensure!(s.mul(&fs) == ft.mul(&mm).mul(&bs).mul(&fs), "{what}: internal");
            ensure!(mm.mul(&bs) == bt.mul(&s), "{what}: M B_src != B_tgt S");
            let no = with_threads(threads, || call(&what, || Schur::from_partial_triangular(tt, &msp, r, false)))?;
            ensure!(rd(no.complement(), &what)? == s && no.trans_src().is_none() && no.trans_tgt().is_none(), "{what}: result without transforms differs");
            let one = with_threads(1, || call(&what, || Schur::from_partial_triangular(tt, &msp, r, true)))?;
            ensure!(rd(one.complement(), &what)? == s, "{what}: result on {threads} threads differs from the result on 1 thread");
            let mid = r > 0 && r < mm.m.min(mm.n) && !bm.is_zero() && !cm.is_zero();
            pass = pass.nt(mid).label("schur").label_if(r == 0, "r=0").label_if(r == mm.m.min(mm.n), "r=min(m,n)");
        }
        Kind::Decomp { blocks, zrows, zcols, ps, qs, stored_zeros, tree } => {
            let mut bl: Vec<RM> = vec![];
            for (bi_, (bm, bn, e)) in blocks.iter().take(tier.pick(5, 8)).enumerate() {
                match tree {
                    None => { let (m, n) = (*bm as usize % 4 + 1, *bn as usize % 4 + 1); bl.push(entries_model(k, m, n, e)); }
                    Some(seed) => {
                        let c = 2 + (*bm as usize % 64);
                        let mut st = ((*seed as u64) << 8 | bi_ as u64) << 1 | 1;
                        let mut rnd = || { st = st.wrapping_mul(6364136223846793005).wrapping_add(1442695040888963407); (st >> 33) as usize };
                        let privs: Vec<usize> = (0..c).map(|_| rnd() % (1 + *bn as usize % 13)).collect();
                        let m = (c - 1) + privs.iter().sum::<usize>();
                        let mut b = RM::zero(k, m, c);
                        let val = |x: usize| k.from_i64([1i64, -1, 2, 3, -2][x % 5]);
                        for j in 1..c { let par = rnd() % j; b.a[j - 1][j] = val(rnd()); b.a[j - 1][par] = val(rnd()); }
                        let mut r = c - 1;
                        for (j, p) in privs.iter().enumerate() { for _ in 0..*p { b.a[r][j] = val(rnd()); r += 1; } }
                        bl.push(b);
                    }
                }
            }
            let (tm, tn) = (bl.iter().map(|b| b.m).sum::<usize>() + *zrows as usize % 4, bl.iter().map(|b| b.n).sum::<usize>() + *zcols as usize % 4);
            let mut big = RM::zero(k, tm, tn);
            let (mut r0, mut c0) = (0, 0);
            for b in &bl { for i in 0..b.m { for j in 0..b.n { big.a[r0 + i][c0 + j] = b.a[i][j].clone(); } } r0 += b.m; c0 += b.n; }
            let (p0, q0) = (crate::props::c13_perm(*ps, tm), crate::props::c13_perm(*qs, tn));
            let am = big.permute(&p0, &q0);
            let asp: SpMat<R> = to_sp(&am, stored_zeros);
            let has_stored_zero = asp.iter().any(|(_, _, x)| x.is_zero());
            let what = format!("[{}] A = {}", k.name(), am.show());
            let (p, q, s) = with_threads(threads, || call(&what, || dir_sum_decomp(asp.clone())))?;
            let (pv, qv): (Vec<usize>, Vec<usize>) = ((0..tm).map(|i| p.view().at(i)).collect(), (0..tn).map(|j| q.view().at(j)).collect());
            { let mut a = pv.clone(); a.sort(); let mut b = qv.clone(); b.sort(); ensure!(a == (0..tm).collect::<Vec<_>>() && b == (0..tn).collect::<Vec<_>>(), "{what}: returned maps are not permutations"); }
            let perm = am.permute(&pv, &qv);
            let sm: Vec<RM> = s.iter().map(|b| rd(b, &what)).collect::<Chk<Vec<_>>>()?;
            let mut expect = RM::zero(k, tm, tn);
            let (mut r0, mut c0) = (0, 0);
            for b in &sm { ensure!(r0 + b.m <= tm && c0 + b.n <= tn, "{what}: blocks exceed the matrix");
                for i in 0..b.m { for j in 0..b.n { expect.a[r0 + i][c0 + j] = b.a[i][j].clone(); } } r0 += b.m; c0 += b.n; }
            ensure!(perm == expect, "{what}: permuted matrix {} is not the block-diagonal sum of the returned blocks {:?}", perm.show(), sm.iter().map(|b| b.show()).collect::<Vec<_>>());
            if !has_stored_zero {
                for (bi_, b) in sm.iter().enumerate() {
                    // bipartite connectivity of rows and columns of the block
                    let tot = b.m + b.n; let mut comp: Vec<usize> = (0..tot).collect();
                    fn find(c: &mut Vec<usize>, x: usize) -> usize { if c[x] == x { x } else { let r = find(c, c[x]); c[x] = r; r } }
                    for i in 0..b.m { for j in 0..b.n { if !k.is_zero(&b.a[i][j]) { let (x, y) = (find(&mut comp, i), find(&mut comp, b.m + j)); comp[x] = y; } } }
                    let roots: BTreeSet<usize> = (0..tot).map(|x| find(&mut comp, x)).collect();
                    ensure!(roots.len() <= 1, "{what}: returned block #{bi_} = {} splits further ({} components)", b.show(), roots.len());
                }
            }
            let (p1, q1, s1) = with_threads(1, || call(&what, || dir_sum_decomp(asp.clone())))?;
            let same = (0..tm).all(|i| p1.view().at(i) == pv[i]) && (0..tn).all(|j| q1.view().at(j) == qv[j]) && s1.len() == s.len() && s1.iter().zip(sm.iter()).all(|(x, y)| sp_to_rm(x).ok().as_ref() == Some(y));
            ensure!(same, "{what}: decomposition on {threads} threads differs from the one on 1 thread");
            pass = pass.nt(sm.len() >= 2).label("decomp").label_if(has_stored_zero, "stored-zeros").label_if(sm.len() == 1 && (sm[0].m == 1 || sm[0].n == 1), "single-line-block").label_if(sm.is_empty(), "no-block").label_if(tree.is_some(), "tree-shaped-blocks").label_if(tn >= 32, "columns>=32");
            if tree.is_some() && !has_stored_zero { ensure!(sm.iter().filter(|b| b.m > 0 && b.n > 0).count() == bl.len(), "{what}: {} tree-shaped (connected) blocks were planted, {} blocks with rows and columns returned", bl.len(), sm.iter().filter(|b| b.m > 0 && b.n > 0).count()); }
        }
    }
    Ok(pass)
}

fn run_case(c: &Case, tier: Tier) -> Chk<Pass> {
    match guard(|| match c.rty { RTy::I64 => run_ty::<i64>(c, tier), RTy::Q => run_ty::<Ratio<i64>>(c, tier), RTy::F5 => run_ty::<FF<5>>(c, tier), RTy::Gauss => run_ty::<GaussInt<i64>>(c, tier) }) {
        Ok(r) => r,
        Err(m) => if is_arith_overflow(&m) && c.rty != RTy::F5 { discard("machine-overflow") } else { bad(format!("panicked: {m}")) },
    }
}

fn ents(maxn: usize) -> BoxedStrategy<Vec<(u8, u8, i8)>> { prop::collection::vec((any::<u8>(), any::<u8>(), prop_oneof![1 => Just(0i8), 6 => -3i8..=3]), 0..maxn).boxed() }
fn zeros() -> BoxedStrategy<Vec<(u8, u8)>> { prop_oneof![2 => Just(vec![]), 1 => prop::collection::vec((any::<u8>(), any::<u8>()), 1..6)].boxed() }
fn tri(maxn: u8) -> BoxedStrategy<Tri> {
    let n = prop_oneof![1 => Just(0u8), 1 => Just(1u8), 8 => 0..=maxn];
    (n, any::<bool>(), prop::collection::vec(any::<u8>(), 0..(maxn as usize + 1)), ents(40), zeros()).prop_map(|(n, upper, diag, off, zeros)| Tri { n, upper, diag, off, zeros }).boxed()
}

impl Prop for C12 {
    type Case = Case;
    const ID: &'static str = "C12";
    fn rule() -> String {
        "case = (ring in {i64 (diag +-1), Ratio<i64> (diag units 2, 1/2, -3, 2/3, ..), FF<5>, GaussInt<i64> (diag +-1, +-i)}, thread count in {1,2,3,4,8,16}, kind): \
         Solve: triangular A (upper/lower, n in 0..12 (25 thorough), unit diagonal, optional explicit stored zeros anywhere) and a sequence of 1..4 right-hand sides Y (0..12 columns, explicit zeros) solved on one pool: A X = Y, X A = Y (left), solve_triangular_vec, inv_triangular(A) A = I, equal to the 1-thread result; \
         Schur: M = [A B; C D], r in 0..10 incl. r = 0 and r = min(m,n): S = D - C A^-1 B (reference substitution), F_tgt M B_src = S, F B = I, M B_src = B_tgt S, with/without transforms, equal to the 1-thread result; \
         Decomp: direct sum of up to 5 random blocks (one case in 20: tree-shaped blocks on up to 65 columns each, whose number must be recovered) plus zero rows/columns conjugated by random permutations: permuted matrix == block-diagonal sum of the returned blocks, each block connected (bipartite row/column graph) when no explicit zero is stored, equal to the 1-thread result. \
         non-trivial = Solve with n >= 2 and (>= 2 solves on the pool or more columns than threads); Schur with 0 < r < min(m,n) and B, C non-zero; Decomp with >= 2 blocks".into()
    }
    fn assumptions() -> Vec<String> { vec!["thread schedules are sampled through pool sizes and column counts; rayon decides the column-to-worker assignment".into()] }
    fn strategy(tier: Tier) -> BoxedStrategy<Case> {
        let mx = tier.pick(12u8, 25u8);
        let solve = (tri(mx), prop::collection::vec((any::<u8>(), ents(40), zeros()), 1..5)).prop_map(|(a, ys)| Kind::Solve { a, ys });
        let schur = (tri(10), any::<u8>(), any::<u8>(), ents(30), ents(30), ents(30), zeros()).prop_map(|(a, m_extra, n_extra, b, c, d, zeros)| Kind::Schur { a, m_extra, n_extra, b, c, d, zeros });
        let decomp = (prop::collection::vec((any::<u8>(), any::<u8>(), ents(10)), 0..6), any::<u8>(), any::<u8>(), any::<u32>(), any::<u32>(), zeros())
            .prop_map(|(blocks, zrows, zcols, ps, qs, stored_zeros)| Kind::Decomp { blocks, zrows, zcols, ps, qs, stored_zeros, tree: None });
        let decomp_tree = (prop::collection::vec((any::<u8>(), any::<u8>(), Just(vec![])), 1..5), any::<u8>(), any::<u8>(), any::<u32>(), any::<u32>(), any::<u32>())
            .prop_map(|(blocks, zrows, zcols, ps, qs, seed)| Kind::Decomp { blocks, zrows, zcols, ps, qs, stored_zeros: vec![], tree: Some(seed) });
        (prop::sample::select(vec![RTy::I64, RTy::Q, RTy::F5, RTy::Gauss]), any::<u8>(), prop_oneof![8 => solve, 6 => schur, 5 => decomp, 1 => decomp_tree])
            .prop_map(|(rty, threads, kind)| Case { rty, threads, kind }).boxed()
    }
    fn cases(tier: Tier) -> u32 { tier.pick(60_000, 1_200_000) }
    fn shards(_: Tier) -> usize { 8 }
    fn replay_repeats() -> usize { 30 }
    fn run(case: &Case, ctx: &Ctx) -> Outcome { to_outcome(run_case(case, ctx.tier)) }
}
