//! C20 The ykh command reports the library's result for every option combination.
//! Differential: the binary (built from /repo) run as a child process vs a direct library call; error contract.

use proptest::prelude::*;
use serde::{Deserialize, Serialize};
use std::collections::BTreeMap;
use std::io::Read;
use std::process::{Command, Stdio};
use std::time::{Duration, Instant};
use yui::poly::{Poly, Poly2};
use yui::{Elem, Ratio, FF};
use yui_homology::{GridTrait, SummandTrait};
use yui_kh::kh::{KhComplex, KhHomology};

use crate::engine::*;
use crate::ensure;
use crate::kit::dgen::*;
use crate::kit::diagram::*;

pub struct C20;

#[derive(Clone, Copy, Debug, Serialize, Deserialize, PartialEq)]
pub enum CT_ { Z, Q, F2, F3, Gauss }

#[derive(Clone, Debug, Serialize, Deserialize, PartialEq)]
pub enum CVal { Absent, Int(i8), Pair(i8, i8), Half, H, T0, HT, H0, Garbage(String) }

#[derive(Clone, Debug, Serialize, Deserialize, PartialEq)]
pub enum LinkArg { Name(String), Pd(DSpec), EmptyPd, Unknown(String), Malformed(String) }

#[derive(Clone, Debug, Serialize, Deserialize)]
pub struct Case { pub ckh: bool, pub ctype: Option<CT_>, pub cval: CVal, pub mirror: bool, pub reduced: bool, pub link: LinkArg, pub extra_flag: Option<String> }

fn ykh_path() -> std::path::PathBuf { std::env::var("YV_YKH").map(Into::into).unwrap_or_else(|_| verif_root().join("harness/target/ykh/release/ykh")) }

struct Out { code: Option<i32>, stdout: String, stderr: String, timed_out: bool }

fn run_cli(args: &[String]) -> Result<Out, String> {
    let mut child = Command::new(ykh_path()).args(args).stdin(Stdio::null()).stdout(Stdio::piped()).stderr(Stdio::piped()).env("RUST_BACKTRACE", "0").spawn().map_err(|e| format!("cannot start ykh: {e}"))?;
    let (mut so, mut se) = (child.stdout.take().unwrap(), child.stderr.take().unwrap());
    let t1 = std::thread::spawn(move || { let mut s = String::new(); let _ = so.read_to_string(&mut s); s });
    let t2 = std::thread::spawn(move || { let mut s = String::new(); let _ = se.read_to_string(&mut s); s });
    let start = Instant::now();
    let mut timed_out = false;
    let status = loop {
        match child.try_wait() { Ok(Some(s)) => break Some(s), Ok(None) => {}, Err(_) => break None }
        if start.elapsed() > Duration::from_secs(120) { let _ = child.kill(); let _ = child.wait(); timed_out = true; break None }
        std::thread::sleep(Duration::from_millis(3));
    };
    Ok(Out { code: status.and_then(|s| s.code()), stdout: t1.join().unwrap_or_default(), stderr: t2.join().unwrap_or_default(), timed_out })
}

fn sup_to_num(s: &str) -> Option<usize> {
    let mut n = 0usize; let mut any = false;
    for ch in s.chars() { let d = "⁰¹²³⁴⁵⁶⁷⁸⁹".chars().position(|c| c == ch)?; n = n * 10 + d; any = true; }
    if any { Some(n) } else { None }
}

/// parse a cell "Sym^r (+) (Sym/t)^k (+) .." into (rank, sorted torsion strings)
fn parse_cell(cell: &str, sym: &str, zero: &str) -> Result<(usize, Vec<String>), String> {
    if cell == zero { return Ok((0, vec![])) }
    let (mut rank, mut tors) = (0usize, vec![]);
    for tok in cell.split(" ⊕ ") {
        if tok.starts_with('(') {
            let close = tok.rfind(')').ok_or_else(|| format!("unbalanced summand '{tok}'"))?;
            let (inner, sup) = (&tok[1..close], &tok[close + 1..]);
            let n = if sup.is_empty() { 1 } else { sup_to_num(sup).ok_or_else(|| format!("bad multiplicity in '{tok}'"))? };
            let t = inner.strip_prefix(sym).and_then(|r| r.strip_prefix('/')).ok_or_else(|| format!("torsion summand '{tok}' does not have the form ({sym}/t)"))?;
            for _ in 0..n { tors.push(t.to_string()); }
        } else {
            let rest = tok.strip_prefix(sym).ok_or_else(|| format!("summand '{tok}' is neither {sym}^r nor ({sym}/t)^r"))?;
            rank += if rest.is_empty() { 1 } else { sup_to_num(rest).ok_or_else(|| format!("summand '{tok}' is neither {sym}^r nor ({sym}/t)^r"))? };
        }
    }
    tors.sort();
    Ok((rank, tors))
}

type Grid = BTreeMap<(isize, isize), (usize, Vec<String>)>;

/// parse the first table on stdout.  bigraded: header `j\i  c1 c2 ..`, rows `j  cell cell ..`; sequence: header `i  c1 ..`, one row
fn parse_table(out: &str, sym: &str) -> Result<(bool, Grid), String> {
    let lines: Vec<&str> = out.lines().take_while(|l| !l.trim().is_empty()).collect();
    if lines.is_empty() { return Err("no table on stdout".into()) }
    let split = |l: &str| -> Vec<String> { let mut v = vec![]; let mut cur = String::new(); let mut sp = 0;
        for ch in l.trim().chars() { if ch == ' ' { sp += 1; } else { if sp >= 2 { if !cur.is_empty() { v.push(cur.clone()); cur.clear(); } } else if sp == 1 { cur.push(' '); } sp = 0; cur.push(ch); } }
        if !cur.is_empty() { v.push(cur); } v };
    let head = split(lines[0]);
    let mut g = Grid::new();
    if head.first().map(|s| s.as_str()) == Some("j\\i") {
        let cols: Vec<isize> = head[1..].iter().map(|s| s.parse::<isize>().map_err(|_| format!("bad column header '{s}'"))).collect::<Result<_, _>>()?;
        for l in &lines[1..] {
            let toks = split(l);
            if toks.len() != cols.len() + 1 { return Err(format!("row '{l}' has {} cells for {} columns", toks.len().saturating_sub(1), cols.len())) }
            let j = toks[0].parse::<isize>().map_err(|_| format!("bad row label '{}'", toks[0]))?;
            for (k, c) in toks[1..].iter().enumerate() { let v = parse_cell(c, sym, ".")?; if v.0 > 0 || !v.1.is_empty() { g.insert((cols[k], j), v); } }
        }
        Ok((true, g))
    } else if head.first().map(|s| s.as_str()) == Some("i") {
        let cols: Vec<isize> = head[1..].iter().map(|s| s.parse::<isize>().map_err(|_| format!("bad column header '{s}'"))).collect::<Result<_, _>>()?;
        if lines.len() != 2 { return Err(format!("sequence output has {} rows", lines.len() - 1)) }
        let toks = split(lines[1]);
        if toks.len() != cols.len() { return Err(format!("row '{}' has {} cells for {} columns", lines[1], toks.len(), cols.len())) }
        for (k, c) in toks.iter().enumerate() { let v = parse_cell(c, sym, "0")?; if v.0 > 0 || !v.1.is_empty() { g.insert((cols[k], 0), v); } }
        Ok((false, g))
    } else { Err(format!("unrecognised table header '{}'", lines[0])) }
}

fn lib_kh<R>(l: &yui_link::Link, h: &R, t: &R, red: bool, bigraded: bool) -> (String, Grid, Option<String>) where R: yui::EucRing, for<'x> &'x R: yui::EucRingOps<R> {
    let kh = KhHomology::<R>::new(l, h, t, red);
    let mut g = Grid::new();
    let mut note = None;
    if bigraded {
        let b = kh.into_bigraded();
        for idx in b.support() { let s = &b[(idx.0, idx.1)]; let mut ts: Vec<String> = s.tors().iter().map(|x| x.to_string()).collect(); ts.sort(); if s.rank() > 0 || !ts.is_empty() { g.insert((idx.0, idx.1), (s.rank(), ts)); } }
        // the (i,j) table must be a regrouping of the homology per homological degree: same total rank and the same multiset of torsion orders
        let mut per: BTreeMap<isize, (usize, Vec<String>)> = BTreeMap::new();
        for ((i, _), (r, ts)) in &g { let e = per.entry(*i).or_insert((0, vec![])); e.0 += r; e.1.extend(ts.iter().cloned()); }
        for i in kh.support() {
            let s = &kh[i]; let mut ts: Vec<String> = s.tors().iter().map(|x| x.to_string()).collect(); ts.sort();
            let (r2, mut t2) = per.get(&i).cloned().unwrap_or((0, vec![])); t2.sort();
            if (s.rank(), &ts) != (r2, &t2) && note.is_none() { note = Some(format!("homological degree {i}: the homology has rank {} and torsion orders {:?}, the cells (i,j) of the bigraded table add up to rank {r2} and torsion orders {:?}", s.rank(), ts, t2)); }
        }
    } else {
        for i in kh.support() { let s = &kh[i]; let mut ts: Vec<String> = s.tors().iter().map(|x| x.to_string()).collect(); ts.sort(); if s.rank() > 0 || !ts.is_empty() { g.insert((i, 0), (s.rank(), ts)); } }
    }
    (R::math_symbol(), g, note)
}

fn lib_ckh<R>(l: &yui_link::Link, h: &R, t: &R, red: bool) -> (String, Grid) where R: yui::Ring, for<'x> &'x R: yui::RingOps<R> {
    let c = KhComplex::<R>::new(l, h, t, red);
    let gg = c.gen_grid();
    let mut g = Grid::new();
    for idx in gg.support() { let r = gg[(idx.0, idx.1)].rank(); if r > 0 { g.insert((idx.0, idx.1), (r, vec![])); } }
    (R::math_symbol(), g)
}

enum Expect { Table { sym: String, grid: Grid, exact: bool, bigraded: Option<bool>, lib_note: Option<String> }, ErrorOnly, Either }

fn run_case(c: &Case, tier: Tier) -> Chk<Pass> {
    // ---- arguments
    let mut args: Vec<String> = vec![if c.ckh { "ckh".into() } else { "kh".into() }];
    let (link_arg, link): (String, Option<yui_link::Link>) = match &c.link {
        LinkArg::Name(n) => (n.clone(), pool_get(n).map(|d| d.to_link())),
        LinkArg::Pd(spec) => match build(spec) { Ok(d) if d.pd().is_some() && d.ncross() <= tier.pick(9, 10) && d.orient(0).is_ok() => (serde_json::to_string(&d.pd().unwrap()).unwrap(), Some(d.to_link())), _ => return discard("diagram-not-a-small-pd-code") },
        LinkArg::EmptyPd => ("[]".into(), Some(yui_link::Link::empty())),
        LinkArg::Unknown(s) | LinkArg::Malformed(s) => (s.clone(), None),
    };
    if let LinkArg::Name(n) = &c.link { if pool_get(n).map(|d| d.ncross() > tier.pick(10, 11)).unwrap_or(true) { return discard("link-too-large") } }
    args.push(link_arg.clone());
    if let Some(t) = c.ctype { args.push("-t".into()); args.push(match t { CT_::Z => "Z", CT_::Q => "Q", CT_::F2 => "F2", CT_::F3 => "F3", CT_::Gauss => "Gauss" }.into()); }
    let cstr = match &c.cval { CVal::Absent => None, CVal::Int(a) => Some(a.to_string()), CVal::Pair(a, b) => Some(format!("{a},{b}")), CVal::Half => Some("1/2".into()), CVal::H => Some("H".into()), CVal::T0 => Some("0,T".into()), CVal::HT => Some("H,T".into()), CVal::H0 => Some("H,0".into()), CVal::Garbage(s) => Some(s.clone()) };
    if let Some(s) = &cstr { if s.starts_with('-') { args.push(format!("-c={s}")); } else { args.push("-c".into()); args.push(s.clone()); } }
    if c.mirror { args.push("-m".into()); }
    if c.reduced { args.push("-r".into()); }
    if let Some(f) = &c.extra_flag { args.push(f.clone()); }
    let what = format!("ykh {}", args.iter().map(|a| if a.contains(' ') || a.contains('[') { format!("'{a}'") } else { a.clone() }).collect::<Vec<_>>().join(" "));

    // ---- expectation
    let ct = c.ctype.unwrap_or(CT_::Z);
    let expect = (|| -> Expect {
        if c.extra_flag.is_some() { return Expect::ErrorOnly }
        let Some(l0) = &link else { return Expect::ErrorOnly };
        let l = if c.mirror { l0.mirror() } else { l0.clone() };
        if ct == CT_::Gauss { return Expect::ErrorOnly } // default build has no quadratic-integer support: must refuse
        let red = c.reduced;
        // (h,t) as small integers or symbols
        #[derive(Clone, Copy, PartialEq)] enum P { C(i64, i64), Half, H, T, HT }
        let p = match &c.cval { CVal::Absent => P::C(0, 0), CVal::Int(a) => P::C(*a as i64, 0), CVal::Pair(a, b) => P::C(*a as i64, *b as i64), CVal::Half => P::Half, CVal::H | CVal::H0 => P::H, CVal::T0 => P::T, CVal::HT => P::HT, CVal::Garbage(_) => return Expect::ErrorOnly };
        if p == P::Half && ct != CT_::Q { return Expect::ErrorOnly }
        let t_zero = match (p, ct) { (P::C(_, b), CT_::F2) => b.rem_euclid(2) == 0, (P::C(_, b), CT_::F3) => b.rem_euclid(3) == 0, (P::C(_, b), _) => b == 0, (P::Half, _) | (P::H, _) => true, _ => false };
        if red && (!t_zero || l.is_empty()) { return Expect::ErrorOnly }
        if red && l.data().is_empty() { return Expect::ErrorOnly }
        let kh_bigraded = match (&c.cval, p) { (_, P::C(0, 0)) => true, (CVal::H, _) | (CVal::T0, _) => true, _ => false };
        macro_rules! consts { ($R:ty, $mk:expr) => {{ let mk = $mk; match p { P::C(a, b) => Some((mk(a), mk(b))), _ => None } }} }
        let r = guard(|| -> Option<Expect> {
            if !c.ckh {
                let (sym, grid, lib_note) = match (ct, p) {
                    (CT_::Z, P::C(a, b)) => lib_kh::<i64>(&l, &a, &b, red, kh_bigraded),
                    (CT_::Q, P::C(a, b)) => lib_kh::<Ratio<i64>>(&l, &Ratio::from(a), &Ratio::from(b), red, kh_bigraded),
                    (CT_::Q, P::Half) => lib_kh::<Ratio<i64>>(&l, &Ratio::new(1, 2), &Ratio::from(0), red, false),
                    (CT_::F2, P::C(a, b)) => lib_kh::<FF<2>>(&l, &FF::new(a as i32), &FF::new(b as i32), red, FF::<2>::new(a as i32).rep() == &0 && FF::<2>::new(b as i32).rep() == &0),
                    (CT_::F3, P::C(a, b)) => lib_kh::<FF<3>>(&l, &FF::new(a as i32), &FF::new(b as i32), red, FF::<3>::new(a as i32).rep() == &0 && FF::<3>::new(b as i32).rep() == &0),
                    (CT_::Q, P::H) => lib_kh::<Poly<'H', Ratio<i64>>>(&l, &Poly::variable(), &Poly::from_const(Ratio::from(0)), red, kh_bigraded),
                    (CT_::F2, P::H) => lib_kh::<Poly<'H', FF<2>>>(&l, &Poly::variable(), &Poly::from_const(FF::new(0)), red, kh_bigraded),
                    (CT_::F3, P::H) => lib_kh::<Poly<'H', FF<3>>>(&l, &Poly::variable(), &Poly::from_const(FF::new(0)), red, kh_bigraded),
                    (CT_::Q, P::T) => lib_kh::<Poly<'T', Ratio<i64>>>(&l, &Poly::from_const(Ratio::from(0)), &Poly::variable(), red, kh_bigraded),
                    (CT_::F2, P::T) => lib_kh::<Poly<'T', FF<2>>>(&l, &Poly::from_const(FF::new(0)), &Poly::variable(), red, kh_bigraded),
                    (CT_::F3, P::T) => lib_kh::<Poly<'T', FF<3>>>(&l, &Poly::from_const(FF::new(0)), &Poly::variable(), red, kh_bigraded),
                    // kh needs a PID: Z[H], Z[T], R[H,T] cannot be supported
                    _ => return Some(Expect::ErrorOnly),
                };
                let _ = consts!(i64, |x: i64| x);
                Some(Expect::Table { sym, grid, exact: true, bigraded: None, lib_note })
            } else {
                let (sym, grid, exact) = match (ct, p) {
                    (CT_::Z, P::C(a, b)) => { let (s, g) = lib_ckh::<i64>(&l, &a, &b, red); (s, g, false) }
                    (CT_::Q, P::C(a, b)) => { let (s, g) = lib_ckh::<Ratio<i64>>(&l, &Ratio::from(a), &Ratio::from(b), red); (s, g, true) }
                    (CT_::Q, P::Half) => { let (s, g) = lib_ckh::<Ratio<i64>>(&l, &Ratio::new(1, 2), &Ratio::from(0), red); (s, g, true) }
                    (CT_::F2, P::C(a, b)) => { let (s, g) = lib_ckh::<FF<2>>(&l, &FF::new(a as i32), &FF::new(b as i32), red); (s, g, true) }
                    (CT_::F3, P::C(a, b)) => { let (s, g) = lib_ckh::<FF<3>>(&l, &FF::new(a as i32), &FF::new(b as i32), red); (s, g, true) }
                    (CT_::Z, P::H) => { let (s, g) = lib_ckh::<Poly<'H', i64>>(&l, &Poly::variable(), &Poly::from_const(0), red); (s, g, false) }
                    (CT_::Z, P::T) => { let (s, g) = lib_ckh::<Poly<'T', i64>>(&l, &Poly::from_const(0), &Poly::variable(), red); (s, g, false) }
                    (CT_::Z, P::HT) => { let (s, g) = lib_ckh::<Poly2<'H', 'T', i64>>(&l, &Poly2::variable(0), &Poly2::variable(1), red); (s, g, false) }
                    (CT_::Q, P::H) => { let (s, g) = lib_ckh::<Poly<'H', Ratio<i64>>>(&l, &Poly::variable(), &Poly::from_const(Ratio::from(0)), red); (s, g, false) }
                    (CT_::F2, P::H) => { let (s, g) = lib_ckh::<Poly<'H', FF<2>>>(&l, &Poly::variable(), &Poly::from_const(FF::new(0)), red); (s, g, false) }
                    (CT_::F3, P::H) => { let (s, g) = lib_ckh::<Poly<'H', FF<3>>>(&l, &Poly::variable(), &Poly::from_const(FF::new(0)), red); (s, g, false) }
                    (CT_::Q, P::T) => { let (s, g) = lib_ckh::<Poly<'T', Ratio<i64>>>(&l, &Poly::from_const(Ratio::from(0)), &Poly::variable(), red); (s, g, false) }
                    (CT_::F2, P::T) => { let (s, g) = lib_ckh::<Poly<'T', FF<2>>>(&l, &Poly::from_const(FF::new(0)), &Poly::variable(), red); (s, g, false) }
                    (CT_::F3, P::T) => { let (s, g) = lib_ckh::<Poly<'T', FF<3>>>(&l, &Poly::from_const(FF::new(0)), &Poly::variable(), red); (s, g, false) }
                    (CT_::Q, P::HT) => { let (s, g) = lib_ckh::<Poly2<'H', 'T', Ratio<i64>>>(&l, &Poly2::variable(0), &Poly2::variable(1), red); (s, g, false) }
                    (CT_::F2, P::HT) => { let (s, g) = lib_ckh::<Poly2<'H', 'T', FF<2>>>(&l, &Poly2::variable(0), &Poly2::variable(1), red); (s, g, false) }
                    (CT_::F3, P::HT) => { let (s, g) = lib_ckh::<Poly2<'H', 'T', FF<3>>>(&l, &Poly2::variable(0), &Poly2::variable(1), red); (s, g, false) }
                    _ => return Some(Expect::Either),
                };
                Some(Expect::Table { sym, grid, exact, bigraded: Some(true), lib_note: None })
            }
        });
        match r { Ok(Some(e)) => e, Ok(None) => Expect::Either, Err(_) => Expect::Either } // the library itself rejects (panics): CLI must answer with an error or the same refusal
    })();

    // ---- run
    let out = run_cli(&args).map_err(Bad::Fail)?;
    if out.timed_out { return discard("watchdog") }
    let table_on_stdout = out.stdout.lines().any(|l| l.trim_start().starts_with("j\\i") || l.trim_start().starts_with("i  "));
    ensure!(out.code.is_some(), "{what}: terminated by a signal (stderr: {})", out.stderr.chars().take(300).collect::<String>());
    let mut pass = Pass::new().label(if c.ckh { "ckh" } else { "kh" });
    let err_ok = |out: &Out| -> Chk {
        ensure!(out.code != Some(0), "{what}: expected an error result but the exit status is 0; stdout:\n{}", out.stdout.chars().take(600).collect::<String>());
        ensure!(!table_on_stdout, "{what}: an error result must not print a table; stdout:\n{}", out.stdout.chars().take(600).collect::<String>());
        ensure!(!out.stderr.trim().is_empty(), "{what}: error result without a message on stderr");
        Ok(())
    };
    match expect {
        Expect::ErrorOnly => { err_ok(&out)?; pass = pass.label("error-case").nt(!matches!(c.link, LinkArg::Unknown(_))); }
        Expect::Either => { if out.code == Some(0) { pass = pass.label("either:answered"); } else { err_ok(&out)?; pass = pass.label("either:refused"); } }
        Expect::Table { sym, grid, exact, lib_note, .. } => {
            if let Some(n) = lib_note { return bad(format!("{what}: the (i,j) table that the kh command prints (KhHomology::into_bigraded) is not a regrouping of the homology it is derived from: {n}")) }
            if out.code != Some(0) && !table_on_stdout && (out.stderr.contains("attempt to ") && out.stderr.contains("with overflow")) && !matches!(c.ctype, Some(CT_::F2) | Some(CT_::F3)) {
                // ykh computes over i64 / Ratio<i64>: an arithmetic overflow inside the computation is an internal failure, which the
                // contract allows to be reported as an error result (and whether it happens depends on the elimination order of the run)
                err_ok(&out)?;
                return discard("machine-overflow-in-cli");
            }
            if out.code != Some(0) {
                // a maintainer may restrict support, but then it must be a clean error
                err_ok(&out)?;
                // ... except that the combinations the README documents must be answered
                return bad(format!("{what}: supported combination refused: {}", out.stderr.chars().take(300).collect::<String>()));
            }
            let (_, got) = parse_table(&out.stdout, &sym).map_err(|e| Bad::Fail(format!("{what}: cannot parse the printed table ({e}); stdout:\n{}", out.stdout.chars().take(800).collect::<String>())))?;
            let ungraded_consts = c.ckh && match (&c.cval, c.ctype.unwrap_or(CT_::Z)) {
                (CVal::Int(a), CT_::F2) => a.rem_euclid(2) != 0, (CVal::Int(a), CT_::F3) => a.rem_euclid(3) != 0, (CVal::Int(a), _) => *a != 0,
                (CVal::Pair(a, b), CT_::F2) => a.rem_euclid(2) != 0 || b.rem_euclid(2) != 0, (CVal::Pair(a, b), CT_::F3) => a.rem_euclid(3) != 0 || b.rem_euclid(3) != 0, (CVal::Pair(a, b), _) => *a != 0 || *b != 0,
                (CVal::Half, _) => true, _ => false };
            if exact && ungraded_consts {
                // over a field the reduced complex has zero differential, so the number of generators per homological degree is the
                // dimension of the homology; their q-degrees are not canonical when (h,t) != (0,0)
                let cols = |g: &Grid| -> BTreeMap<isize, usize> { let mut m = BTreeMap::new(); for ((i, _), (r, _)) in g { *m.entry(*i).or_insert(0) += r; } m };
                ensure!(cols(&got) == cols(&grid), "{what}: generators per homological degree {:?} differ from the library's {:?}; stdout:\n{}", cols(&got), cols(&grid), out.stdout.chars().take(800).collect::<String>());
            } else if exact {
                ensure!(got == grid, "{what}: printed table {:?} differs from the library result {:?}; stdout:\n{}", got, grid, out.stdout.chars().take(800).collect::<String>());
            } else {
                // generator counts of the reduced complex depend on the engine's elimination order (per-process hash seeds): compare invariants
                ensure!(got.values().all(|v| v.1.is_empty()), "{what}: ckh prints torsion");
                let euler = |g: &Grid| -> BTreeMap<isize, i64> { let mut m = BTreeMap::new(); for ((i, j), (r, _)) in g { *m.entry(*j).or_insert(0i64) += if i.rem_euclid(2) == 0 { *r as i64 } else { -(*r as i64) }; } m.retain(|_, v| *v != 0); m };
                let graded = !matches!(c.cval, CVal::Int(_) | CVal::Pair(..) | CVal::Half) || matches!(c.cval, CVal::Int(0) | CVal::Pair(0, 0));
                if graded { ensure!(euler(&got) == euler(&grid), "{what}: graded Euler characteristic of the printed generator table {:?} differs from the library's {:?}", euler(&got), euler(&grid)); }
                else { let tot = |g: &Grid| euler(g).values().sum::<i64>(); ensure!(tot(&got) == tot(&grid), "{what}: Euler characteristic of the printed generator table differs from the library's"); }
                let rng = |g: &Grid| (g.keys().map(|k| k.0).min(), g.keys().map(|k| k.0).max());
                let _ = rng;
            }
            pass = pass.label("table-compared").label_if(exact, "exact").nt(c.ctype.is_some() || c.cval != CVal::Absent || c.mirror || c.reduced);
        }
    }
    Ok(pass)
}

impl Prop for C20 {
    type Case = Case;
    const ID: &'static str = "C20";
    fn rule() -> String {
        "case = argument vector: {kh, ckh} x -t {absent, Z, Q, F2, F3, Gauss} x -c {absent, integers, 'a,b', '1/2', H, '0,T', 'H,T', 'H,0', garbage} x -m x -r x link in {table names <= 9 crossings (and, less often, the 10-crossing names 10_k, L10a_k, L10n_k and the twelve homologically thick knots up to 10 crossings; thorough: also the 11-crossing names), PD JSON of generated diagrams, '[]', unknown names, malformed JSON / arity / negative numbers / path-like strings} x optional unknown flag; the binary built from /repo runs as a child process (120 s watchdog). \
         supported combinations: exit status 0 and the first table on stdout, parsed by a small grammar (cells separated by >= 2 blanks; Sym, Sym^r, (Sym/t), (Sym/t)^r joined by (+); '.'/'0' = zero), lists exactly the library's groups (rank and multiset of torsion strings, ring symbol) in the same (i,j) cells for kh and for ckh over fields; for ckh over Z and polynomial rings (whose generator counts depend on the engine's per-process elimination order) the graded Euler characteristic per q is compared; \
         unsupported combinations (kh over Z[H], Z[T], R[H,T]; Gauss in the default build; reduced with t != 0; 1/2 outside Q), malformed input, unknown names and unknown flags: non-zero exit, a message on stderr, no table on stdout; combinations the library itself rejects: either outcome, but never a table together with a failure status. \
         non-trivial = a supported combination with a non-default option, or an error case other than an unknown name".into()
    }
    fn assumptions() -> Vec<String> { vec!["PD JSON that parses but is not a valid diagram is not generated (from_pd_code documents no validation)".into()] }
    fn strategy(tier: Tier) -> BoxedStrategy<Case> {
        let names: Vec<String> = pool_names(tier.pick(8, 9));
        // every name pattern of the shipped table occurs: n_k, Lna_k, Lnn_k, K11a_k, K11n_k with one- and two-digit crossing numbers
        let big = tier.pick(10usize, 11usize);
        let names_big: Vec<String> = pool_names(big).into_iter().filter(|n| pool_get(n).map(|d| d.n() >= 10).unwrap_or(false)).collect();
        let ctype = prop_oneof![2 => Just(None), 3 => Just(Some(CT_::Z)), 3 => Just(Some(CT_::Q)), 3 => Just(Some(CT_::F2)), 3 => Just(Some(CT_::F3)), 1 => Just(Some(CT_::Gauss))];
        let cval = prop_oneof![3 => Just(CVal::Absent), 3 => (-3i8..=3).prop_map(CVal::Int), 3 => (-2i8..=2, -2i8..=2).prop_map(|(a, b)| CVal::Pair(a, b)), 1 => Just(CVal::Half), 3 => Just(CVal::H), 2 => Just(CVal::T0), 2 => Just(CVal::HT), 1 => Just(CVal::H0),
            1 => prop::sample::select(vec!["abc", "1,", ",", "H,H,H", "2.5", "x", "1,2,3", "∞"]).prop_map(|s| CVal::Garbage(s.to_string()))];
        let link = prop_oneof![
            8 => prop::sample::select(names).prop_map(LinkArg::Name),
            2 => prop::sample::select(names_big).prop_map(LinkArg::Name),
            // the homologically thick knots up to 10 crossings: the tables with the richest torsion (several orders in one homological degree)
            2 => prop::sample::select(vec!["8_19", "9_42", "10_124", "10_128", "10_132", "10_136", "10_139", "10_145", "10_152", "10_153", "10_154", "10_161"]).prop_map(|s| LinkArg::Name(s.to_string())),
            4 => dspec_strategy(tier.pick(6, 8), 1).prop_map(LinkArg::Pd),
            1 => Just(LinkArg::EmptyPd),
            2 => prop::sample::select(vec!["foo", "3_99", "11_1", "K99a1", "L0a0", "0_1", "3_1.json", "../links/3_1", "/etc/passwd", ""]).prop_map(|s| LinkArg::Unknown(s.to_string())),
            2 => prop::sample::select(vec!["[[1,2,3]]", "[[1,2,3,4,5]]", "[[-1,2,3,4]]", "[1,2,3,4]", "[[1,2,3,4]", "{\"a\":1}", "[[1.5,2,3,4]]", "[[99999999999999999999,2,3,4]]", "null", "[[\"a\",\"b\",\"c\",\"d\"]]"]).prop_map(|s| LinkArg::Malformed(s.to_string()))];
        let flag = prop::option::weighted(0.05, prop::sample::select(vec!["-x", "--bogus", "-t", "--format=pdf"]).prop_map(|s| s.to_string()));
        (any::<bool>(), ctype, cval, any::<bool>(), any::<bool>(), link, flag).prop_map(|(ckh, ctype, cval, mirror, reduced, link, extra_flag)| Case { ckh, ctype, cval, mirror, reduced, link, extra_flag }).boxed()
    }
    fn cases(tier: Tier) -> u32 { tier.pick(6_000, 80_000) }
    fn shards(_: Tier) -> usize { 16 }
    fn replay_repeats() -> usize { 3 }
    fn run(case: &Case, ctx: &Ctx) -> Outcome { to_outcome(run_case(case, ctx.tier)) }
}

#[allow(unused)]
fn _u(d: &Dg) -> usize { d.n() + <i64 as Elem>::math_symbol().len() }
