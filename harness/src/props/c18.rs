//! C18 Link diagrams: components, signs, resolutions and braid closures are correct.

use proptest::prelude::*;
use serde::{Deserialize, Serialize};
use std::collections::{BTreeMap, BTreeSet};
use yui::bitseq::BitSeq;
use yui_link::{Braid, Generator, Link};

use crate::engine::*;
use crate::ensure;
use crate::kit::dgen::*;
use crate::kit::diagram::*;

pub struct C18;

#[derive(Clone, Debug, Serialize, Deserialize)]
pub struct Case { pub d: DSpec, pub states: Vec<u64>, pub braid: Option<(u8, Vec<i8>)>, pub variant_seed: u32 }

fn sign_i(s: yui::Sign) -> i32 { if s.is_positive() { 1 } else { -1 } }

/// Kauffman state sum (unnormalised Jones polynomial) from the harness's own signs and circle counts: exponent -> coefficient
pub fn own_jones(d: &Dg) -> Result<BTreeMap<i64, i64>, String> {
    let o = d.orient(0)?;
    let n = d.ncross();
    if n > 16 { return Err("too many crossings".into()) }
    let (np, nn) = (o.npos as i64, o.nneg as i64);
    let mut p: BTreeMap<i64, i64> = BTreeMap::new();
    // binomial expansion of (q + 1/q)^r
    for s in 0..(1u64 << n) {
        let w = s.count_ones() as i64;
        let (r, _) = d.circles(s);
        let sg = if (w + nn) % 2 == 0 { 1 } else { -1 };
        let mut c = 1i64; // C(r, k)
        for k in 0..=r as i64 {
            *p.entry(np - 2 * nn + w + (r as i64 - 2 * k)).or_insert(0) += sg * c;
            c = c * (r as i64 - k) / (k + 1);
        }
    }
    p.retain(|_, v| *v != 0);
    Ok(p)
}

fn lib_components(l: &Link) -> Vec<(Vec<usize>, bool)> { l.components().iter().map(|p| (p.edges().clone(), p.is_circle())).collect() }

fn cyc_eq(a: &[usize], b: &[usize]) -> bool {
    if a.len() != b.len() { return false }
    let n = a.len(); if n == 0 { return true }
    let rb: Vec<usize> = b.iter().rev().cloned().collect();
    (0..n).any(|s| (0..n).all(|i| a[(i + s) % n] == b[i])) || (0..n).any(|s| (0..n).all(|i| a[(i + s) % n] == rb[i]))
}

fn check_diagram(dg: &Dg, states: &[u64], what: &str) -> Chk<(usize, usize, i32)> {
    let link = dg.to_link();
    let o0 = match dg.orient(0) { Ok(o) => o, Err(e) => return discard(format!("diagram-invalid: {e}")) };
    let call = |w: &str, f: &mut dyn FnMut()| -> Chk { match guard(|| f()) { Ok(_) => Ok(()), Err(m) => bad(format!("{what}: {w} panicked: {m}")) } };
    // ---- components
    let mut comps = vec![];
    call("components()", &mut || comps = lib_components(&link))?;
    let mine: Vec<Vec<usize>> = o0.strands.iter().map(|s| s.labels.clone()).collect();
    let lib_sets: BTreeSet<BTreeSet<usize>> = comps.iter().map(|c| c.0.iter().cloned().collect()).collect();
    let my_sets: BTreeSet<BTreeSet<usize>> = mine.iter().map(|c| c.iter().cloned().collect()).collect();
    let all: usize = comps.iter().map(|c| c.0.len()).sum();
    ensure!(all == dg.labels().len(), "{what}: components() lists {all} edges, the diagram has {} (not a partition): {:?}", dg.labels().len(), comps);
    ensure!(lib_sets == my_sets, "{what}: components {:?} are not the orbits of the strand-through-crossing relation {:?}", comps, mine);
    for (e, circ) in &comps {
        ensure!(*circ, "{what}: component {:?} of a closed diagram is reported as an arc", e);
        let m = mine.iter().find(|m| m.iter().cloned().collect::<BTreeSet<_>>() == e.iter().cloned().collect::<BTreeSet<_>>()).unwrap();
        ensure!(cyc_eq(e, m), "{what}: component {:?} does not follow the strand order {:?}", e, m);
    }
    let mut knot = false; call("is_knot()", &mut || knot = link.is_knot())?;
    ensure!(knot == (mine.len() == 1), "{what}: is_knot() = {knot} with {} components", mine.len());
    // ---- signs: exists an orientation of the free components
    let mut signs = vec![]; call("crossing_signs()", &mut || signs = link.crossing_signs().into_iter().map(sign_i).collect::<Vec<i32>>())?;
    let nfree = o0.strands.iter().filter(|s| s.free).count();
    ensure!(signs.len() == dg.ncross(), "{what}: crossing_signs() has {} entries for {} crossings", signs.len(), dg.ncross());
    let mut ok = false;
    for bits in 0..(1u32 << nfree.min(6)) {
        let o = dg.orient(bits).unwrap();
        let s: Vec<i32> = o.signs.iter().flatten().cloned().collect();
        if s == signs { ok = true; break }
    }
    ensure!(ok, "{what}: crossing_signs() = {:?} is not the sign vector of any orientation consistent with the under-strand directions (reference with default orientation: {:?}, {} free components)", signs, o0.signs.iter().flatten().collect::<Vec<_>>(), nfree);
    let (mut np, mut nn, mut wr) = (0, 0, 0);
    call("signed_crossing_nums()/writhe()", &mut || { let (a, b) = link.signed_crossing_nums(); np = a; nn = b; wr = link.writhe(); })?;
    ensure!(np == signs.iter().filter(|s| **s == 1).count() && nn == signs.iter().filter(|s| **s == -1).count() && wr == np as i32 - nn as i32, "{what}: signed_crossing_nums/writhe inconsistent with crossing_signs");
    ensure!((np, nn) == (o0.npos, o0.nneg), "{what}: (n+, n-) = ({np},{nn}), reference ({},{})", o0.npos, o0.nneg);
    let mut cn = 0; call("crossing_num()", &mut || cn = link.crossing_num())?;
    ensure!(cn == dg.ncross(), "{what}: crossing_num");
    // ---- resolutions
    let n = dg.ncross();
    if n <= 60 {
        let sts: Vec<u64> = if n <= 6 { (0..(1u64 << n)).collect() } else { states.iter().map(|s| s & ((1u64 << n) - 1)).chain([0, (1u64 << n) - 1]).collect() };
        for s in sts {
            let bs = BitSeq::new(s, n);
            let mut r: Vec<(Vec<usize>, bool)> = vec![]; let mut left = 0;
            call("resolved_by()", &mut || { let l2 = link.resolved_by(&bs); left = l2.crossing_num(); r = lib_components(&l2); })?;
            ensure!(left == 0, "{what}: resolved_by({s:b}) leaves {left} crossings");
            let (cnt, _) = dg.circles(s);
            ensure!(r.len() == cnt, "{what}: state {s:b}: {} components, edge-identification count {cnt}", r.len());
            ensure!(r.iter().all(|c| c.1), "{what}: state {s:b}: a component of a complete resolution is not a circle");
            // the same state reached one crossing at a time: resolved_at(i, bit) with i = position among the crossings still
            // unresolved, in an order derived from s
            let mut remaining: Vec<usize> = (0..n).collect();
            let mut st = s ^ 0x9E37_79B9_7F4A_7C15;
            let (mut left2, mut r2): (usize, Vec<(Vec<usize>, bool)>) = (0, vec![]);
            call("resolved_at()", &mut || {
                let mut l2 = link.clone();
                while !remaining.is_empty() {
                    st = st.wrapping_mul(6364136223846793005).wrapping_add(1442695040888963407);
                    let p = (st >> 33) as usize % remaining.len();
                    let orig = remaining.remove(p);
                    l2 = l2.resolved_at(p, if (s >> orig) & 1 == 1 { yui::bitseq::Bit::Bit1 } else { yui::bitseq::Bit::Bit0 });
                }
                left2 = l2.crossing_num(); r2 = lib_components(&l2);
            })?;
            ensure!(left2 == 0 && r2.len() == cnt, "{what}: state {s:b} reached by successive resolved_at calls: {left2} crossings left, {} components, edge-identification count {cnt}", r2.len());
        }
    }
    // ---- Seifert circles: oriented smoothing pairs each incoming end with the adjacent outgoing end
    if nfree == 0 {
        let labels: Vec<usize> = dg.labels().into_iter().collect();
        let idx: BTreeMap<usize, usize> = labels.iter().enumerate().map(|(i, l)| (*l, i)).collect();
        let mut p: Vec<usize> = (0..labels.len()).collect();
        fn find(p: &mut Vec<usize>, x: usize) -> usize { if p[x] == x { x } else { let r = find(p, p[x]); p[x] = r; r } }
        for (i, (t, e)) in dg.x.iter().enumerate() {
            let pairs = match t { CT::H => [(0, 1), (2, 3)], CT::V => [(0, 3), (1, 2)], _ => {
                let s = o0.signs[i].unwrap(); let s = if *t == CT::Xm { -s } else { s };
                if s == 1 { [(0, 1), (2, 3)] } else { [(0, 3), (1, 2)] } } };
            for (a, b) in pairs { let (x, y) = (find(&mut p, idx[&e[a]]), find(&mut p, idx[&e[b]])); p[x] = y; }
        }
        let want = (0..labels.len()).map(|x| find(&mut p, x)).collect::<BTreeSet<_>>().len();
        let mut got = 0; call("seifert_circles()", &mut || got = link.seifert_circles().len())?;
        ensure!(got == want, "{what}: seifert_circles() has {got} circles, oriented smoothing gives {want}");
    }
    Ok((np, nn, wr))
}

fn run_case(c: &Case) -> Chk<Pass> {
    let dg = match build(&c.d) { Ok(d) => d, Err(e) => return discard(format!("diagram-build: {e}")) };
    if dg.ncross() > 40 { return discard("too-large") }
    let what = format!("{:?} diagram={:?}", c.d, dg.x);
    let what = if what.len() > 1000 { format!("{}...", &what[..1000]) } else { what };
    let (np, nn, wr) = check_diagram(&dg, &c.states, &what)?;
    let pure = dg.x.iter().all(|x| x.0 == CT::X);
    // ---- invariance under renumbering / reordering / global reversal; mirror
    if pure {
        for (name, v) in [("renumbered", dg.renumber_seeded(c.variant_seed as u64)), ("reordered", dg.reorder_seeded(c.variant_seed as u64)), ("all orientations reversed", dg.reverse_all())] {
            let (p2, n2, w2) = check_diagram(&v, &[], &format!("{what} [{name}: {:?}]", v.x))?;
            ensure!((p2, n2, w2) == (np, nn, wr), "{what}: (n+, n-, writhe) changes from ({np},{nn},{wr}) to ({p2},{n2},{w2}) when the diagram is {name}");
        }
        let l = dg.to_link();
        let m = l.mirror();
        let (mp, mn) = match guard(|| m.signed_crossing_nums()) { Ok(v) => v, Err(e) => return bad(format!("{what}: mirror: {e}")) };
        ensure!((mp, mn) == (nn, np) && m.writhe() == -wr, "{what}: mirror has (n+, n-) = ({mp},{mn}), expected ({nn},{np})");
        let ms: Vec<i32> = m.crossing_signs().into_iter().map(sign_i).collect();
        let s0: Vec<i32> = l.crossing_signs().into_iter().map(sign_i).collect();
        if dg.nfree() == 0 { ensure!(ms.iter().zip(s0.iter()).all(|(a, b)| *a == -*b), "{what}: mirror does not negate every crossing sign"); }
    }
    // ---- braid closure
    let mut braid_nt = false;
    if let Some((n, w)) = &c.braid {
        let n = (*n as usize).clamp(2, 8);
        let mut word: Vec<i32> = w.iter().filter(|x| **x != 0).map(|x| { let k = (x.unsigned_abs() as usize - 1) % (n - 1) + 1; if *x > 0 { k as i32 } else { -(k as i32) } }).collect();
        let mut t = vec![false; n]; for x in &word { let k = x.unsigned_abs() as usize - 1; t[k] = true; t[k + 1] = true; }
        for s in 0..n { if !t[s] { let g = if s == n - 1 { s } else { s + 1 }; word.push(g as i32); t[g - 1] = true; t[g] = true; } }
        let wb = format!("braid on {n} strands {:?}", word);
        let b = Braid::new(n, word.iter().map(|x| Generator::from(*x)).collect());
        let l = match guard(|| b.closure()) { Ok(l) => l, Err(m) => return bad(format!("{wb}: closure() panicked: {m}")) };
        let cyc = braid_perm_cycles(n, &word);
        let comps = match guard(|| lib_components(&l)) { Ok(c) => c, Err(m) => return bad(format!("{wb}: components() of the closure panicked: {m}")) };
        ensure!(comps.len() == cyc, "{wb}: closure has {} components, the permutation has {cyc} cycles", comps.len());
        ensure!(comps.iter().all(|c| c.1), "{wb}: closure has an open component: {:?}", comps);
        ensure!(l.crossing_num() == word.len(), "{wb}: closure has {} crossings", l.crossing_num());
        let es: i32 = word.iter().map(|x| x.signum()).sum();
        ensure!(l.writhe() == es, "{wb}: closure has writhe {}, exponent sum {es}", l.writhe());
        let signs: Vec<i32> = l.crossing_signs().into_iter().map(sign_i).collect();
        // same link as the harness's own closure: structure checks + state sums agree
        let pd: Vec<[usize; 4]> = l.data().iter().map(|x| *x.edges()).collect();
        let ld = Dg::from_pd(&pd);
        // (a component that only passes over has no orientation in a PD code, so individual signs are compared only without such components)
        if ld.nfree() == 0 { ensure!(signs == word.iter().map(|x| x.signum()).collect::<Vec<_>>(), "{wb}: crossing signs {:?} differ from the letters' signs", signs); }
        check_diagram(&ld, &c.states, &format!("{wb} closure {:?}", pd))?;
        if word.len() <= 12 {
            let mine = braid_closure(n, &word).unwrap();
            let (a, b2) = (own_jones(&ld).map_err(Bad::Fail)?, own_jones(&mine).map_err(Bad::Fail)?);
            ensure!(a == b2, "{wb}: the closure's state sum {:?} differs from the state sum of the harness's own closure {:?}", a, b2);
        }
        braid_nt = n >= 3 && word.iter().any(|x| *x > 0) && word.iter().any(|x| *x < 0);
    }
    let ncomp = dg.components().map(|c| c.len()).unwrap_or(0);
    let kink = dg.x.iter().any(|x| { let e = x.1; e[0] == e[1] || e[1] == e[2] || e[2] == e[3] || e[3] == e[0] });
    Ok(Pass::new().nt(ncomp >= 2 || kink || dg.nfree() > 0 || braid_nt).label_if(ncomp >= 2, "multi-component").label_if(kink, "kink").label_if(dg.nfree() > 0, "over-only-component")
        .label_if(braid_nt, "braid>=3strands-both-signs").label_if(!pure, "has-resolved-crossing"))
}

impl Prop for C18 {
    type Case = Case;
    const ID: &'static str = "C18";
    fn rule() -> String {
        "case = (diagram: any table link (up to 12 crossings), braid closure, torus link or corner case with 0..3 modifications (kinks of four kinds, circle over/under an edge, split union, connected sum, renumbering, reordering, reversal, mirror); 4 random states; optionally a braid word on 2..8 strands of length 0..14 with every strand touched). \
         oracle (own half-edge combinatorics): components() partitions the edge set into the orbits of the strand-through-crossing relation, in strand order up to rotation/reversal, all closed; crossing_signs() equals the reference signs for some orientation of the components that never pass under; n+, n-, writhe consistent and unchanged by renumbering, reordering and global reversal, swapped/negated by mirror(); every complete resolution (all states for n <= 6, sampled otherwise; reached by resolved_by and again by successive resolved_at calls in a generated order) has no crossing left, only circles, and as many as the edge-identification count; seifert_circles() count equals the oriented-smoothing count; \
         Braid::closure(): components == permutation cycles, crossings == letters, writhe == exponent sum, signs == letter signs, closed components, and the same Kauffman state sum as the harness's own closure. \
         non-trivial = >= 2 components, or a kink, or a component that only passes over, or a braid on >= 3 strands with both signs".into()
    }
    fn assumptions() -> Vec<String> { vec!["diagrams mixing resolved and real crossings on one component are not generated (not PD codes)".into()] }
    fn strategy(tier: Tier) -> BoxedStrategy<Case> {
        let maxc = tier.pick(12usize, 12usize);
        let braid = (2u8..=8, prop::collection::vec(prop_oneof![(1i8..=7), (-7i8..=-1)], 0..=14));
        (dspec_strategy(maxc, 3), prop::collection::vec(any::<u64>(), 4), prop::option::weighted(0.6, braid), any::<u32>())
            .prop_map(|(d, states, braid, variant_seed)| Case { d, states, braid, variant_seed }).boxed()
    }
    fn cases(tier: Tier) -> u32 { tier.pick(40_000, 600_000) }
    fn shards(_: Tier) -> usize { 16 }
    fn run(case: &Case, _ctx: &Ctx) -> Outcome { to_outcome(run_case(case)) }
}
