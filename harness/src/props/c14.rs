//! C14 Scalar types are exact commutative rings with canonical representatives.
//! Op histories on an accumulator, mirrored in the reference ring (refalg).

use num_bigint::BigInt;
use num_rational::BigRational;
use num_traits::{One, Signed, Zero};
use proptest::prelude::*;
use serde::{Deserialize, Serialize};
use std::cmp::Ordering;

use crate::engine::*;
use crate::ensure;
use crate::kit::refalg::*;
use crate::kit::sc::*;

pub struct C14;

/// operand description, interpreted relative to the type
#[derive(Clone, Debug, Serialize, Deserialize)]
pub enum Val {
    Zero, One, MinusOne,
    Small(i64),
    /// 2^k + d
    Pow2(u32, i64, bool),
    /// decimal digits (sign, digits)
    Big(bool, String),
    /// machine limit of the type: MAX - d / MIN + d
    Limit(bool, u8),
    /// fraction of two integer operands (Q only; ignored otherwise -> numerator)
    Frac(Box<Val>, Box<Val>),
    /// polynomial by coefficient list (polynomial rings; other types use the constant term)
    Poly(Vec<Val>),
    /// monomial c x^d
    Mono(u8, Box<Val>),
    /// pair (quadratic integers; other types use the first)
    Pair(Box<Val>, Box<Val>),
    /// the accumulator itself / its negative / its inverse (if a unit)
    Acc, NegAcc, InvAcc,
    /// an earlier accumulator value (index mapped into the history)
    Prev(u16),
}

#[derive(Clone, Copy, Debug, Serialize, Deserialize, PartialEq)]
pub enum Form { VV, VR, RV, RR, AssignV, AssignR }

#[derive(Clone, Copy, Debug, Serialize, Deserialize, PartialEq)]
pub enum Bin { Add, Sub, Mul, Div }

#[derive(Clone, Debug, Serialize, Deserialize)]
pub enum Op {
    /// acc = acc (op) x   (swap: x (op) acc, non-assign forms only)
    Bin(Bin, Form, bool, Val),
    Neg(bool),
    /// compare acc with x (rationals / integers: order; all: equality)
    Cmp(Val),
    /// compare acc with a neighbour acc + delta / (denominator * 10^k)
    CmpNear(i8, u8),
    /// rebuild the model value through a different route and compare with acc
    Rebuild(u8),
    /// ring axioms on (acc, x, y)
    Axioms(Val, Val),
    /// build the model value again through a public constructor from a non-canonical description (Sc::from_twisted) and
    /// continue with that value: it must equal acc, be canonical, and behave identically from here on
    Construct(i16),
}

#[derive(Clone, Debug, Serialize, Deserialize)]
pub struct Case { pub ty: Ty, pub start: Val, pub ops: Vec<Op> }

// ---------------------------------------------------------------------------

/// upper bound for the bit length of the integers inside a value and for its polynomial degree (used to keep byte-decoded
/// matrix cases within the size range of the generated ones)
pub fn val_size(v: &Val) -> (u32, usize) {
    match v {
        Val::Pow2(k, _, _) => (*k % 4096 + 1, 0),
        Val::Big(_, s) => (4 * s.len() as u32, 0),
        Val::Limit(..) => (200, 0),
        Val::Frac(a, b) | Val::Pair(a, b) => { let (x, y) = (val_size(a), val_size(b)); (x.0.max(y.0), x.1.max(y.1)) }
        Val::Mono(d, a) => { let x = val_size(a); (x.0, x.1.max(*d as usize)) }
        Val::Poly(c) => c.iter().map(val_size).fold((0, c.len()), |a, b| (a.0.max(b.0), a.1.max(b.1))),
        _ => (64, 0),
    }
}

pub fn int_of(v: &Val, bits: Option<u32>) -> BigInt {
    match v {
        Val::Zero => bi(0), Val::One => bi(1), Val::MinusOne => bi(-1),
        Val::Small(x) => bi(*x),
        Val::Pow2(k, d, neg) => { let x = (BigInt::one() << (*k % 4096)) + bi(*d); if *neg { -x } else { x } }
        // generated strings are decimal digits; byte-decoded (fuzz) strings may contain anything: only the digits count
        Val::Big(neg, s) => { let d: String = s.chars().filter(|c| c.is_ascii_digit()).collect(); let x = parse_big(if d.is_empty() { "0" } else { &d }); if *neg { -x } else { x } }
        Val::Limit(max, d) => match bits {
            Some(b) => if *max { (BigInt::one() << b) - 1 - bi(*d as i64) } else { -(BigInt::one() << b) + bi(*d as i64) },
            None => { let x = (BigInt::one() << 200u32) - bi(*d as i64); if *max { x } else { -x } }
        },
        Val::Frac(a, _) | Val::Pair(a, _) | Val::Mono(_, a) => int_of(a, bits),
        Val::Poly(c) => c.first().map(|a| int_of(a, bits)).unwrap_or_else(|| bi(0)),
        _ => bi(1),
    }
}

pub fn resolve(v: &Val, k: &RK, bits: Option<u32>, acc: &RV, hist: &[RV]) -> Option<RV> {
    let coeff_ring = match k { RK::PQ => Some(RK::Q), RK::PF(p) => Some(RK::F(*p)), _ => None };
    if let Some(ck) = coeff_ring {
        let coef = |c: &Val| -> Option<RV> { resolve(c, &ck, bits, &ck.zero(), &[]) };
        let build = |cs: Vec<RV>| -> RV { match ck {
            RK::Q => { let mut v: Vec<BigRational> = cs.into_iter().map(|c| match c { RV::Q(q) => q, _ => unreachable!() }).collect(); while v.last().map(|x| x.is_zero()).unwrap_or(false) { v.pop(); } RV::PQ(v) }
            _ => { let mut v: Vec<u64> = cs.into_iter().map(|c| match c { RV::F(q) => q, _ => unreachable!() }).collect(); while v.last().map(|x| *x == 0).unwrap_or(false) { v.pop(); } RV::PF(v) } } };
        match v {
            Val::Poly(cs) => return Some(build(cs.iter().map(coef).collect::<Option<Vec<_>>>()?)),
            Val::Mono(d, c) => { let mut cs = vec![ck.zero(); *d as usize]; cs.push(coef(c)?); return Some(build(cs)) }
            Val::Acc | Val::NegAcc | Val::InvAcc | Val::Prev(_) => {}
            other => return Some(build(vec![coef(other)?])),
        }
    }
    Some(match v {
        Val::Acc => acc.clone(),
        Val::NegAcc => k.neg(acc),
        Val::InvAcc => k.inv(acc)?,
        Val::Prev(i) => if hist.is_empty() { acc.clone() } else { hist[((*i as usize) * hist.len()) >> 16].clone() },
        Val::Frac(a, b) => match k {
            RK::Q => { let mut d = int_of(b, bits); if d.is_zero() { d = bi(1); } RV::Q(BigRational::new(int_of(a, bits), d)) }
            RK::F(_) => { let mut d = k.from_int(&int_of(b, bits)); if k.is_zero(&d) { d = k.one(); } k.exact_div(&k.from_int(&int_of(a, bits)), &d)? }
            _ => k.from_int(&int_of(a, bits)),
        },
        Val::Pair(a, b) => match k {
            RK::Quad(_) => RV::Quad(int_of(a, bits), int_of(b, bits)),
            _ => k.from_int(&int_of(a, bits)),
        },
        other => k.from_int(&int_of(other, bits)),
    })
}


fn apply_bin_nodiv<T>(op: Bin, form: Form, swap: bool, acc: &T, x: &T) -> T
where T: Sc + yui::Ring, for<'a> &'a T: yui::RingOps<T> {
    let (l, r) = if swap && !matches!(form, Form::AssignV | Form::AssignR) { (x, acc) } else { (acc, x) };
    macro_rules! go { ($o:tt, $oa:tt) => { match form {
        Form::VV => l.clone() $o r.clone(),
        Form::VR => l.clone() $o r,
        Form::RV => l $o r.clone(),
        Form::RR => l $o r,
        Form::AssignV => { let mut t = l.clone(); t $oa r.clone(); t }
        Form::AssignR => { let mut t = l.clone(); t $oa r; t }
    } } }
    match op { Bin::Add => go!(+, +=), Bin::Sub => go!(-, -=), Bin::Mul => go!(*, *=), Bin::Div => unreachable!() }
}

/// library call under guard; machine overflow panics are discards
fn lib<T, R>(what: &str, f: impl FnOnce() -> R) -> Chk<R> where T: Sc {
    match guard(f) {
        Ok(v) => Ok(v),
        Err(m) => if T::machine() && is_arith_overflow(&m) { discard("machine-overflow") } else { bad(format!("{what}: panicked: {m}")) },
    }
}

trait Divide: Sized { fn div_by(op_form: (Form, bool), acc: &Self, x: &Self) -> Option<Self>; fn order(_a: &Self, _b: &Self) -> Option<(Ordering, Option<Ordering>)> { None } }

macro_rules! impl_divide_field {
    ($($t:ty),*) => { $(impl Divide for $t {
        fn div_by(ff: (Form, bool), acc: &Self, x: &Self) -> Option<Self> {
            let sw = ff.1 && !matches!(ff.0, Form::AssignV | Form::AssignR);
            let (l, r) = if sw { (x, acc) } else { (acc, x) };
            Some(match ff.0 {
                Form::VV => l.clone() / r.clone(),
                Form::VR => l.clone() / r,
                Form::RV => l / r.clone(),
                Form::RR => l / r,
                Form::AssignV => { let mut t = l.clone(); t /= r.clone(); t }
                Form::AssignR => { let mut t = l.clone(); t /= r; t }
            })
        }
    })* };
}
macro_rules! impl_divide_ratio {
    ($($t:ty),*) => { $(impl Divide for yui::Ratio<$t> {
        fn div_by(ff: (Form, bool), acc: &Self, x: &Self) -> Option<Self> {
            let sw = ff.1 && !matches!(ff.0, Form::AssignV | Form::AssignR);
            let (l, r) = if sw { (x, acc) } else { (acc, x) };
            Some(match ff.0 {
                Form::VV => l.clone() / r.clone(),
                Form::VR => l.clone() / r,
                Form::RV => l / r.clone(),
                Form::RR => l / r,
                Form::AssignV => { let mut t = l.clone(); t /= r.clone(); t }
                Form::AssignR => { let mut t = l.clone(); t /= r; t }
            })
        }
        fn order(a: &Self, b: &Self) -> Option<(Ordering, Option<Ordering>)> { Some((a.cmp(b), a.partial_cmp(b))) }
    })* };
}
macro_rules! impl_divide_int {
    ($($t:ty),*) => { $(impl Divide for $t {
        fn div_by(_: (Form, bool), _: &Self, _: &Self) -> Option<Self> { None }
        fn order(a: &Self, b: &Self) -> Option<(Ordering, Option<Ordering>)> { Some((a.cmp(b), a.partial_cmp(b))) }
    })* };
}
macro_rules! impl_divide_none {
    ($($t:ty),*) => { $(impl Divide for $t { fn div_by(_: (Form, bool), _: &Self, _: &Self) -> Option<Self> { None } })* };
}
impl_divide_field!(yui::FF2, yui::FF<2>, yui::FF<3>, yui::FF<5>, yui::FF<7>, yui::FF<251>, yui::FF<46337>);
impl_divide_ratio!(i64, i128, BigInt);
impl_divide_int!(i32, i64, i128, BigInt);
impl_divide_none!(yui::GaussInt<i64>, yui::GaussInt<i128>, yui::GaussInt<BigInt>, yui::EisenInt<i64>, yui::EisenInt<i128>, yui::EisenInt<BigInt>,
    Q2<i64>, Q2<BigInt>, Qm2<BigInt>, Q5<i64>, Q5<BigInt>, Qm7<BigInt>,
    yui::poly::Poly<'x', yui::Ratio<i64>>, yui::poly::Poly<'x', yui::Ratio<BigInt>>, yui::poly::Poly<'x', yui::FF<3>>, yui::poly::Poly<'x', yui::FF<5>>,
    yui::poly::HPoly<'x', yui::Ratio<i64>>, yui::poly::HPoly<'x', yui::Ratio<BigInt>>, yui::poly::HPoly<'x', yui::FF<3>>);

pub fn fits(v: &RV, bits: Option<u32>) -> bool {
    // arbitrary-precision types: a history ends once a value passes 2^8192 (repeated squaring of the accumulator would
    // otherwise double the length at every step; such values only cost time)
    let b = bits.unwrap_or(8_192);
    let lim = BigInt::one() << b;
    let ok = |x: &BigInt| *x >= -&lim && *x < lim;
    match v { RV::Z(x) => ok(x), RV::Q(q) => ok(q.numer()) && ok(q.denom()), RV::Quad(a, b) => ok(a) && ok(b), RV::PQ(c) => c.iter().all(|q| ok(q.numer()) && ok(q.denom())), _ => true }
}

fn check_state<T>(acc: &T, model: &RV, what: &str) -> Chk where T: Sc + yui::Ring, for<'a> &'a T: yui::RingOps<T> {
    let k = T::rk();
    let got = match guard(|| acc.to_rv()) { Ok(v) => v, Err(m) => return bad(format!("{what}: value unreadable: {m}")) };
    ensure!(got == *model, "{what}: value {:?} != model {:?}", SV::of(&got), SV::of(model));
    if let Err(e) = acc.canonical() { return bad(format!("{what}: not canonical: {e}")) }
    ensure!(acc.is_zero() == k.is_zero(model), "{what}: is_zero() = {} but model {:?}", acc.is_zero(), SV::of(model));
    ensure!(acc.is_one() == k.is_one(model), "{what}: is_one() = {} but model {:?}", acc.is_one(), SV::of(model));
    // equality with a freshly constructed value of the same model (a different history, the same ring element)
    if let Some(fresh) = T::from_rv(model) {
        ensure!(*acc == fresh, "{what}: acc {:?} != freshly constructed {:?} although both denote {:?}", acc, fresh, SV::of(model));
        ensure!(fresh == *acc, "{what}: == not symmetric");
    }
    Ok(())
}

fn run_ty<T>(c: &Case) -> Chk<Pass>
where T: Sc + yui::Ring + Divide, for<'a> &'a T: yui::RingOps<T> {
    let k = T::rk();
    let bits = c.ty.machine_bits();
    let mut pass = Pass::new();
    let zero = k.zero();
    let Some(start_m) = resolve(&c.start, &k, bits, &zero, &[]) else { return discard("bad-start") };
    if !fits(&start_m, bits) { return discard("unrepresentable-operand") }
    let Some(mut acc) = lib::<T, _>("construct start", || T::from_rv(&start_m))? else { return discard("unrepresentable-operand") };
    let mut model = start_m;
    check_state(&acc, &model, "start")?;
    let mut hist: Vec<RV> = vec![model.clone()];
    let (mut cancel, mut nontriv_reduce, mut close_cmp, mut nsteps) = (false, false, false, 0usize);

    for (i, op) in c.ops.iter().enumerate() {
        let what = format!("op #{i} {:?} [{}]", op, k.name());
        match op {
            Op::Bin(b, form, swap, v) => {
                let Some(xm) = resolve(v, &k, bits, &model, &hist) else { continue };
                if !fits(&xm, bits) { continue }
                if *b == Bin::Div && (!k.is_field() || k.is_zero(&xm) && !(*swap && !matches!(form, Form::AssignV | Form::AssignR))) { continue }
                let sw = *swap && !matches!(form, Form::AssignV | Form::AssignR);
                let (lm, rm) = if sw { (&xm, &model) } else { (&model, &xm) };
                if *b == Bin::Div && k.is_zero(rm) { continue }
                let new_m = match b {
                    Bin::Add => k.add(lm, rm), Bin::Sub => k.sub(lm, rm), Bin::Mul => k.mul(lm, rm),
                    Bin::Div => k.exact_div(lm, rm).unwrap(),
                };
                if !fits(&new_m, bits) { break } // result not representable: the history ends here
                let Some(x) = lib::<T, _>(&what, || T::from_rv(&xm))? else { continue };
                let plain_int = matches!(c.ty, Ty::I32 | Ty::I64 | Ty::I128);
                let r = guard(|| match b {
                    Bin::Div => T::div_by((*form, *swap), &acc, &x),
                    _ => Some(apply_bin_nodiv(*b, *form, *swap, &acc, &x)),
                });
                let new_acc = match r {
                    Ok(Some(v)) => v,
                    Ok(None) => continue,
                    Err(m) => {
                        // plain machine integers: the result fits, so an overflow panic is a wrong answer;
                        // composite machine types (Ratio, QuadInt): intermediates of the documented formula may overflow -> discard
                        if T::machine() && !plain_int && is_arith_overflow(&m) { return discard("machine-overflow") }
                        return bad(format!("{what}: panicked: {m}"));
                    }
                };
                if k.is_zero(&new_m) && !(k.is_zero(&model) || k.is_zero(&xm)) { cancel = true; }
                if let (RV::Q(a), RV::Q(bq), RV::Q(r)) = (&model, &xm, &new_m) {
                    use num_integer::Integer;
                    let naive_d = match b { Bin::Add | Bin::Sub => a.denom().lcm(bq.denom()), _ => a.denom() * bq.denom() };
                    if r.denom() != &naive_d && !r.denom().is_one() { nontriv_reduce = true; }
                }
                acc = new_acc; model = new_m; nsteps += 1;
                // operands must be left untouched by the by-reference forms: (checked through x's value)
                ensure!(x.to_rv() == xm, "{what}: operand changed by a by-reference operation");
            }
            Op::Neg(by_ref) => {
                let new_m = k.neg(&model);
                if !fits(&new_m, bits) { break }
                let a2 = acc.clone();
                acc = lib::<T, _>(&what, || if *by_ref { -&a2 } else { -a2.clone() })?;
                model = new_m; nsteps += 1;
            }
            Op::Cmp(v) => {
                let Some(xm) = resolve(v, &k, bits, &model, &hist) else { continue };
                if !fits(&xm, bits) { continue }
                let Some(x) = lib::<T, _>(&what, || T::from_rv(&xm))? else { continue };
                ensure!((acc == x) == (model == xm), "{what}: == is {} but the models are {}", acc == x, if model == xm { "equal" } else { "different" });
                if matches!(k, RK::Q | RK::Z) {
                    if let Some((o, po)) = lib::<T, _>(&what, || T::order(&acc, &x))? {
                        let want = cmp_q(&model, &xm);
                        ensure!(o == want, "{what}: cmp = {:?}, order of Q says {:?} ({:?} vs {:?})", o, want, SV::of(&model), SV::of(&xm));
                        ensure!(po == Some(want), "{what}: partial_cmp = {:?}, expected {:?}", po, want);
                        ensure!((o == Ordering::Equal) == (acc == x), "{what}: cmp Equal but !=");
                        let (o2, _) = T::order(&x, &acc).unwrap();
                        ensure!(o2 == want.reverse(), "{what}: cmp not antisymmetric");
                    }
                }
            }
            Op::CmpNear(delta, kexp) => {
                let RV::Q(q) = &model else { continue };
                if *delta == 0 { continue }
                let scale = if bits.is_some() { BigInt::one() } else { num_traits::pow(bi(10), *kexp as usize) };
                let other = BigRational::new(q.numer() * &scale + bi(*delta as i64), q.denom() * &scale);
                let om = RV::Q(other.clone());
                if !fits(&om, bits) || !fits(&RV::Z(q.numer() + bi(*delta as i64)), bits) { continue }
                // unreduced construction through the public constructor
                let Some(x) = lib::<T, _>(&what, || T::from_rv(&om))? else { continue };
                let want = q.cmp(&other);
                if let Some((o, po)) = lib::<T, _>(&what, || T::order(&acc, &x))? {
                    ensure!(o == want, "{what}: cmp of neighbours = {:?}, order of Q says {:?} ({:?} vs {:?})", o, want, SV::of(&model), SV::of(&om));
                    ensure!(po == Some(want), "{what}: partial_cmp of neighbours");
                    ensure!(acc != x, "{what}: == true for different rationals");
                    let rel = ((q - &other) / if q.is_zero() { BigRational::one() } else { q.clone() }).abs();
                    if rel < BigRational::new(bi(1), BigInt::one() << 53u32) { close_cmp = true; }
                }
            }
            Op::Rebuild(route) => {
                // the same ring element through another history: (model - y) + y, or (model * u) * u^-1
                let y = k.from_i64(*route as i64 + 1);
                let a = k.sub(&model, &y);
                if !fits(&a, bits) { continue }
                let (Some(ta), Some(ty)) = (lib::<T, _>(&what, || T::from_rv(&a))?, lib::<T, _>(&what, || T::from_rv(&y))?) else { continue };
                let other = lib::<T, _>(&what, || &ta + &ty)?;
                ensure!(other == acc, "{what}: (m - y) + y = {:?} != acc {:?} (same ring element {:?})", other, acc, SV::of(&model));
                check_state(&other, &model, &what)?;
            }
            Op::Construct(twist) => {
                let Some(other) = lib::<T, _>(&what, || T::from_twisted(&model, *twist as i64))? else { continue };
                ensure!(other == acc, "{what}: the same ring element {:?} constructed with twist {twist} is {:?}, which is != acc {:?}", SV::of(&model), other, acc);
                check_state(&other, &model, &what)?;
                acc = other;
            }
            Op::Axioms(v1, v2) => {
                let (Some(xm), Some(ym)) = (resolve(v1, &k, bits, &model, &hist), resolve(v2, &k, bits, &model, &hist)) else { continue };
                // keep everything representable: require all reference intermediates to fit
                let inter = [k.add(&model, &xm), k.add(&xm, &ym), k.mul(&model, &xm), k.mul(&xm, &ym), k.mul(&model, &ym),
                             k.mul(&k.mul(&model, &xm), &ym), k.mul(&model, &k.add(&xm, &ym)), k.add(&k.add(&model, &xm), &ym)];
                if !fits(&xm, bits) || !fits(&ym, bits) || inter.iter().any(|v| !fits(v, bits)) { continue }
                let (Some(x), Some(y)) = (lib::<T, _>(&what, || T::from_rv(&xm))?, lib::<T, _>(&what, || T::from_rv(&ym))?) else { continue };
                let a = &acc;
                let r = lib::<T, _>(&what, || {
                    let mut bad = vec![];
                    if a + &x != &x + a { bad.push("a+x = x+a"); }
                    if a * &x != &x * a { bad.push("a*x = x*a"); }
                    if (a + &x) + &y != a + (&x + &y) { bad.push("(a+x)+y = a+(x+y)"); }
                    if (a * &x) * &y != a * (&x * &y) { bad.push("(a*x)*y = a*(x*y)"); }
                    if a * (&x + &y) != a * &x + a * &y { bad.push("a*(x+y) = a*x+a*y"); }
                    if a + T::zero() != *a { bad.push("a+0 = a"); }
                    if a * T::one() != *a { bad.push("a*1 = a"); }
                    if !(a + (-a)).is_zero() { bad.push("a+(-a) = 0"); }
                    if !(a - a).is_zero() { bad.push("a-a = 0"); }
                    bad
                })?;
                ensure!(r.is_empty(), "{what}: ring axioms violated on (a,x,y) = ({:?},{:?},{:?}): {:?}", SV::of(&model), SV::of(&xm), SV::of(&ym), r);
            }
        }
        check_state(&acc, &model, &format!("after {what}"))?;
        hist.push(model.clone());
    }
    let big = match &model { RV::Z(x) => x.bits() > 53, RV::Q(q) => q.numer().bits() > 53 || q.denom().bits() > 53, RV::Quad(a, b) => a.bits() > 53 || b.bits() > 53, _ => false };
    pass = pass.nt(nsteps >= 1 && (cancel || nontriv_reduce || close_cmp))
        .label(format!("ty:{:?}", c.ty))
        .label_if(cancel, "cancellation").label_if(nontriv_reduce, "nontrivial-reduction").label_if(close_cmp, "close-compare").label_if(big, "beyond-2^53");
    Ok(pass)
}

fn run_case(c: &Case) -> Chk<Pass> {
    if !Ty::RINGS.contains(&c.ty) { return discard("type-outside-domain") }
    crate::dispatch_ring!(c.ty, run_c14(c))
}

fn run_c14<T>(c: &Case) -> Chk<Pass> where T: Sc + yui::Ring + Divide, for<'a> &'a T: yui::RingOps<T> {
    // panics outside the individually guarded library calls (constructors, predicates, comparisons):
    // composite machine types may overflow in gcd/normalisation near the limits -> discard; anything else is a failure
    match guard(|| run_ty::<T>(c)) {
        Ok(r) => r,
        Err(m) => {
            let plain_int = matches!(c.ty, Ty::I32 | Ty::I64 | Ty::I128);
            if T::machine() && !plain_int && is_arith_overflow(&m) { discard("machine-overflow") } else { bad(format!("panicked: {m}")) }
        }
    }
}

// ---------------------------------------------------------------------------
// strategies

fn digits(max: usize) -> BoxedStrategy<String> {
    (1..=max).prop_flat_map(|n| prop::collection::vec(0u8..10, n)).prop_map(|v| {
        let s: String = v.iter().map(|d| (b'0' + d) as char).collect();
        let t = s.trim_start_matches('0'); if t.is_empty() { "0".to_string() } else { t.to_string() }
    }).boxed()
}

pub fn int_val(bits: Option<u32>, tier: Tier) -> BoxedStrategy<Val> {
    let maxk = bits.map(|b| b.saturating_sub(2).max(1)).unwrap_or(tier.pick(400, 1200));
    let maxdig = bits.map(|b| ((b as usize) * 3 / 10).saturating_sub(1).max(1)).unwrap_or(tier.pick(120, 320));
    prop_oneof![
        2 => Just(Val::Zero), 2 => Just(Val::One), 2 => Just(Val::MinusOne),
        8 => (-12i64..=12).prop_map(Val::Small),
        3 => any::<i32>().prop_map(|x| Val::Small(x as i64 % 100_000)),
        4 => (1..=maxk, -2i64..=2, any::<bool>()).prop_map(|(k, d, n)| Val::Pow2(k, d, n)),
        3 => (Just(53u32.min(maxk)), -2i64..=2, any::<bool>()).prop_map(|(k, d, n)| Val::Pow2(k, d, n)),
        4 => (any::<bool>(), digits(maxdig)).prop_map(|(n, s)| Val::Big(n, s)),
        2 => (any::<bool>(), 0u8..3).prop_map(|(m, d)| Val::Limit(m, d)),
    ].boxed()
}

fn val(ty: Ty, tier: Tier) -> BoxedStrategy<Val> { val_(ty, tier, false) }

fn val_(ty: Ty, tier: Tier, leaf_only: bool) -> BoxedStrategy<Val> {
    let bits = ty.machine_bits();
    // composite machine types: keep coordinates to about a third of the word so products stay representable often
    let cbits = match ty { Ty::I32 | Ty::I64 | Ty::I128 => bits, _ => bits.map(|b| b / 2) };
    let base = int_val(cbits, tier);
    let leaf: BoxedStrategy<Val> = match ty.rk() {
        RK::Q | RK::F(_) => prop_oneof![3 => base.clone(), 5 => (base.clone(), base.clone()).prop_map(|(a, b)| Val::Frac(Box::new(a), Box::new(b)))].boxed(),
        RK::Quad(_) => prop_oneof![1 => base.clone(), 6 => (base.clone(), base.clone()).prop_map(|(a, b)| Val::Pair(Box::new(a), Box::new(b)))].boxed(),
        _ => base.clone(),
    };
    if leaf_only { return leaf }
    prop_oneof![12 => leaf, 2 => Just(Val::Acc), 2 => Just(Val::NegAcc), 1 => Just(Val::InvAcc), 2 => any::<u16>().prop_map(Val::Prev)].boxed()
}

fn form() -> BoxedStrategy<Form> {
    prop_oneof![Just(Form::VV), Just(Form::VR), Just(Form::RV), Just(Form::RR), Just(Form::AssignV), Just(Form::AssignR)].boxed()
}

fn op(ty: Ty, tier: Tier) -> BoxedStrategy<Op> {
    let bin = prop_oneof![4 => Just(Bin::Add), 4 => Just(Bin::Sub), 4 => Just(Bin::Mul), 2 => Just(Bin::Div)];
    prop_oneof![
        14 => (bin, form(), any::<bool>(), val(ty, tier)).prop_map(|(b, f, s, v)| Op::Bin(b, f, s, v)),
        1 => any::<bool>().prop_map(Op::Neg),
        3 => val(ty, tier).prop_map(Op::Cmp),
        2 => (-3i8..=3, 0u8..40).prop_map(|(d, k)| Op::CmpNear(d, k)),
        1 => (0u8..5).prop_map(Op::Rebuild),
        1 => (val(ty, tier), val(ty, tier)).prop_map(|(a, b)| Op::Axioms(a, b)),
        2 => prop_oneof![-4i16..=4, any::<i16>()].prop_map(Op::Construct),
    ].boxed()
}

impl Prop for C14 {
    type Case = Case;
    const ID: &'static str = "C14";
    fn rule() -> String {
        "case = (scalar type, start value, op history of 0..12 ops: + - * / neg in all by-value/by-ref/assign forms, comparisons, ring axioms), \
         mirrored in num-bigint / num-rational / textbook Z[w], F_p; after every step: value == model, canonical form (lowest terms, positive denominator, rep in 0..p), \
         == with a freshly constructed equal value, is_zero/is_one, Ord == order of Q. \
         non-trivial = >= 1 arithmetic step and (a cancellation to zero, or a rational result whose reduction is non-trivial, or a comparison of rationals closer than 2^-53 relatively)".into()
    }
    fn assumptions() -> Vec<String> { vec![
        "machine types: histories stop where the exact result is no longer representable; an arithmetic-overflow panic inside Ratio<iN>/QuadInt<iN> (intermediates of the formula) is a discard, for plain iN with a representable result it is a failure".into(),
        "FF<p> exercised for p^2 < 2^31".into() ] }
    fn strategy(tier: Tier) -> BoxedStrategy<Case> {
        let n = tier.pick(12usize, 30usize);
        prop::sample::select(Ty::RINGS.to_vec()).prop_flat_map(move |ty| {
            (Just(ty), val_(ty, tier, true), prop::collection::vec(op(ty, tier), 0..n)).prop_map(|(ty, start, ops)| Case { ty, start, ops })
        }).boxed()
    }
    fn cases(tier: Tier) -> u32 { tier.pick(400_000, 12_000_000) }
    fn shards(_: Tier) -> usize { 16 }
    fn run(case: &Case, _ctx: &Ctx) -> Outcome { to_outcome(run_case(case)) }
}
