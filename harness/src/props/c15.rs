//! C15 Euclidean-domain operations: exact division, gcd, Bezout, units, rounding.

use num_bigint::BigInt;
use num_traits::{One, Zero};
use proptest::prelude::*;
use serde::{Deserialize, Serialize};

use crate::engine::*;
use crate::ensure;
use crate::kit::refalg::*;
use crate::kit::sc::*;
use crate::props::c14::{fits, int_val, resolve, Val};

pub struct C15;

#[derive(Clone, Copy, Debug, Serialize, Deserialize, PartialEq)]
pub enum Shape {
    /// (x, y)
    Free,
    /// (x*y, y): divisor divides
    Multiple,
    /// (g*x, g*y): planted common factor g
    Common,
    /// (q*(2y) + y, 2y): exact tie for nearest-integer division
    Tie,
    /// (q*(2y+1) + y + e, 2y+1), e in {0,1}: just below / above a tie
    NearTie(bool),
    /// (x, u*x) for the unit number `unit`
    Assoc,
    ZeroA, ZeroB, ZeroBoth,
}

#[derive(Clone, Debug, Serialize, Deserialize)]
pub struct Case { pub ty: Ty, pub shape: Shape, pub x: Val, pub y: Val, pub g: Val, pub q: Val, pub unit: u8, pub unit2: u8 }

fn lib<T: Sc, R>(what: &str, f: impl FnOnce() -> R) -> Chk<R> {
    match guard(f) {
        Ok(v) => Ok(v),
        Err(m) => if T::machine() && is_arith_overflow(&m) { discard("machine-overflow") } else { bad(format!("{what}: panicked: {m}")) },
    }
}

trait Rounding: Sized { fn round_div(_a: &Self, _b: &Self) -> Option<Self> { None } }
macro_rules! impl_rounding { ($($t:ty),*) => { $(impl Rounding for $t { fn round_div(a: &Self, b: &Self) -> Option<Self> { use yui::DivRound; Some(a.div_round(b)) } })* } }
macro_rules! impl_no_rounding { ($($t:ty),*) => { $(impl Rounding for $t {})* } }
impl_rounding!(i32, i64, i128, BigInt, yui::GaussInt<i64>, yui::GaussInt<i128>, yui::GaussInt<BigInt>, yui::EisenInt<i64>, yui::EisenInt<i128>, yui::EisenInt<BigInt>);
impl_no_rounding!(yui::Ratio<i64>, yui::Ratio<i128>, yui::Ratio<BigInt>, yui::FF2, yui::FF<2>, yui::FF<3>, yui::FF<5>, yui::FF<7>, yui::FF<251>, yui::FF<46337>,
    yui::poly::Poly<'x', yui::Ratio<i64>>, yui::poly::Poly<'x', yui::Ratio<BigInt>>, yui::poly::Poly<'x', yui::FF<3>>, yui::poly::Poly<'x', yui::FF<5>>,
    yui::poly::HPoly<'x', yui::Ratio<i64>>, yui::poly::HPoly<'x', yui::Ratio<BigInt>>, yui::poly::HPoly<'x', yui::FF<3>>);

fn sv(v: &RV) -> SV { SV::of(v) }

fn run_ty<T>(c: &Case) -> Chk<Pass>
where T: Sc + yui::EucRing + Rounding, for<'a> &'a T: yui::EucRingOps<T> {
    let k = T::rk();
    let bits = c.ty.machine_bits();
    let hpoly = matches!(c.ty, Ty::HQI64 | Ty::HQBig | Ty::HF3);
    let z = k.zero();
    let rs = |v: &Val| resolve(v, &k, bits, &z, &[]).unwrap_or_else(|| k.zero());
    let (x, y, g, q) = (rs(&c.x), rs(&c.y), rs(&c.g), rs(&c.q));
    let units = k.units();
    let pick_unit = |i: u8| -> RV { match &units { Some(u) => u[(i as usize) % u.len()].clone(), None => if i % 2 == 0 { k.one() } else { k.neg(&k.one()) } } };
    let two = k.from_i64(2);
    let (am, bm) = match c.shape {
        Shape::Free => (x.clone(), y.clone()),
        Shape::Multiple => (k.mul(&x, &y), y.clone()),
        Shape::Common => (k.mul(&g, &x), k.mul(&g, &y)),
        Shape::Tie => { let b = k.mul(&two, &y); (k.add(&k.mul(&q, &b), &y), b) }
        Shape::NearTie(e) => { let b = k.add(&k.mul(&two, &y), &k.one()); (k.add(&k.add(&k.mul(&q, &b), &y), &if e { k.one() } else { k.zero() }), b) }
        Shape::Assoc => (x.clone(), k.mul(&pick_unit(c.unit), &x)),
        Shape::ZeroA => (k.zero(), y.clone()),
        Shape::ZeroB => (x.clone(), k.zero()),
        Shape::ZeroBoth => (k.zero(), k.zero()),
    };
    if !fits(&am, bits) || !fits(&bm, bits) { return discard("unrepresentable-operand") }
    let (Some(a), Some(b)) = (lib::<T, _>("construct a", || T::from_rv(&am))?, lib::<T, _>("construct b", || T::from_rv(&bm))?) else { return discard("unrepresentable-operand") };
    let ctx = format!("[{}] a = {:?}, b = {:?}", k.name(), sv(&am), sv(&bm));
    let rd = |t: &T| -> Chk<RV> { match guard(|| t.to_rv()) { Ok(v) => Ok(v), Err(m) => bad(format!("{ctx}: unreadable result: {m}")) } };
    let mut pass = Pass::new().label(format!("ty:{:?}", c.ty)).label(format!("shape:{:?}", c.shape));
    let (a_zero, b_zero) = (k.is_zero(&am), k.is_zero(&bm));

    // ---- division with remainder
    if !b_zero {
        for form in 0..3 {
            let (qv, rv) = lib::<T, _>(&format!("{ctx}: a / b, a % b"), || match form {
                0 => (&a / &b, &a % &b),
                1 => (a.clone() / b.clone(), a.clone() % b.clone()),
                _ => { let mut t = a.clone(); t /= &b; let mut s = a.clone(); s %= b.clone(); (t, s) }
            })?;
            let (qm, rm) = (rd(&qv)?, rd(&rv)?);
            let back = k.add(&k.mul(&qm, &bm), &rm);
            ensure!(back == am, "{ctx}: (a/b)*b + (a%b) = {:?} != a  (a/b = {:?}, a%b = {:?}, form {form})", sv(&back), sv(&qm), sv(&rm));
            if !k.is_zero(&rm) {
                let (sr, sb) = (k.size(&rm).unwrap(), k.size(&bm).unwrap());
                ensure!(sr < sb, "{ctx}: remainder {:?} has Euclidean size {} >= size of b {} (form {form})", sv(&rm), sr, sb);
            }
            if k.divides(&bm, &am) { ensure!(k.is_zero(&rm), "{ctx}: b divides a but a % b = {:?}", sv(&rm)); }
        }
        let dv = lib::<T, _>(&format!("{ctx}: b.divides(a)"), || b.divides(&a))?;
        ensure!(dv == k.divides(&bm, &am), "{ctx}: b.divides(a) = {dv}, reference {}", k.divides(&bm, &am));
    } else {
        let dv = lib::<T, _>(&format!("{ctx}: 0.divides(a)"), || b.divides(&a))?;
        ensure!(!dv, "{ctx}: zero reported to divide a");
    }

    // ---- nearest-integer division
    let mut tie = false;
    if !b_zero {
        if let Some(r) = lib::<T, _>(&format!("{ctx}: a.div_round(b)"), || T::round_div(&a, &b))? {
            let rm = rd(&r)?;
            match (&k, &am, &bm, &rm) {
                (RK::Z, RV::Z(n), RV::Z(d), RV::Z(got)) => {
                    let ok = nearest_ints(n, d);
                    tie |= ok.len() == 2;
                    ensure!(ok.contains(got), "{ctx}: div_round = {got}, exactly rounded quotient is {:?}", ok.iter().map(|x| x.to_string()).collect::<Vec<_>>());
                }
                (RK::Quad(d), _, _, RV::Quad(gx, gy)) => {
                    let n = k.qnorm(&bm);
                    let RV::Quad(wx, wy) = k.mul(&am, &k.conj(&bm)) else { unreachable!() };
                    if *d == -1 {
                        let (ox, oy) = (nearest_ints(&wx, &n), nearest_ints(&wy, &n));
                        tie |= ox.len() == 2 || oy.len() == 2;
                        ensure!(ox.contains(gx) && oy.contains(gy), "{ctx}: div_round = ({gx},{gy}); exact coordinates ({wx}/{n}, {wy}/{n})");
                    } else {
                        // documented basis {1, w-1}: z/w = (x+y)/N + (y/N)(w-1); result (m-n) + n w
                        let (om, on) = (nearest_ints(&(&wx + &wy), &n), nearest_ints(&wy, &n));
                        tie |= om.len() == 2 || on.len() == 2;
                        let ok = on.contains(gy) && om.contains(&(gx + gy));
                        ensure!(ok, "{ctx}: div_round = ({gx},{gy}); exact coordinates in basis (1, w-1): ({}/{n}, {wy}/{n})", &wx + &wy);
                    }
                    // whatever the tie-breaking, the remainder must be strictly smaller
                    let rem = k.sub(&am, &k.mul(&rm, &bm));
                    ensure!(k.is_zero(&rem) || k.size(&rem).unwrap() < k.size(&bm).unwrap(), "{ctx}: a - div_round*b not smaller than b");
                }
                _ => {}
            }
        }
    }

    // ---- gcd, gcdx, lcm
    let gv = lib::<T, _>(&format!("{ctx}: gcd"), || T::gcd(&a, &b))?;
    let gm = rd(&gv)?;
    if a_zero && b_zero {
        ensure!(k.is_zero(&gm), "{ctx}: gcd(0,0) = {:?}", sv(&gm));
    } else {
        ensure!(!k.is_zero(&gm), "{ctx}: gcd = 0 although not both arguments are zero");
        ensure!(k.divides(&gm, &am) && k.divides(&gm, &bm), "{ctx}: gcd {:?} does not divide both arguments", sv(&gm));
        ensure!(k.is_normal(&gm), "{ctx}: gcd {:?} is not the normalised associate", sv(&gm));
        if c.shape == Shape::Common && !k.is_zero(&g) { ensure!(k.divides(&g, &gm), "{ctx}: planted common divisor {:?} does not divide gcd {:?}", sv(&g), sv(&gm)); }
        let (g2, s, t) = lib::<T, _>(&format!("{ctx}: gcdx"), || T::gcdx(&a, &b))?;
        let (g2m, sm, tm) = (rd(&g2)?, rd(&s)?, rd(&t)?);
        ensure!(g2m == gm, "{ctx}: gcdx returns gcd {:?} but gcd returns {:?}", sv(&g2m), sv(&gm));
        let comb = k.add(&k.mul(&sm, &am), &k.mul(&tm, &bm));
        ensure!(comb == gm, "{ctx}: s*a + t*b = {:?} != gcd {:?} (s = {:?}, t = {:?})", sv(&comb), sv(&gm), sv(&sm), sv(&tm));
        let gsw = rd(&lib::<T, _>(&format!("{ctx}: gcd(b,a)"), || T::gcd(&b, &a))?)?;
        ensure!(gsw == gm, "{ctx}: gcd(b,a) = {:?} != gcd(a,b) = {:?}", sv(&gsw), sv(&gm));
        // units
        let (u, v) = (pick_unit(c.unit), pick_unit(c.unit2));
        let (ua, vb) = (k.mul(&u, &am), k.mul(&v, &bm));
        if let (Some(tua), Some(tvb)) = (T::from_rv(&ua), T::from_rv(&vb)) {
            let gu = rd(&lib::<T, _>(&format!("{ctx}: gcd(ua,vb)"), || T::gcd(&tua, &tvb))?)?;
            ensure!(gu == gm, "{ctx}: gcd(u a, v b) = {:?} != gcd(a,b) = {:?} for units u = {:?}, v = {:?}", sv(&gu), sv(&gm), sv(&u), sv(&v));
        }
        // lcm
        let lv = lib::<T, _>(&format!("{ctx}: lcm"), || T::lcm(&a, &b))?;
        let lm = rd(&lv)?;
        ensure!(k.associates(&k.mul(&lm, &gm), &k.mul(&am, &bm)), "{ctx}: lcm*gcd = {:?} is not an associate of a*b = {:?}", sv(&k.mul(&lm, &gm)), sv(&k.mul(&am, &bm)));
        if !a_zero && !b_zero { ensure!(k.divides(&am, &lm) && k.divides(&bm, &lm), "{ctx}: lcm {:?} is not a common multiple", sv(&lm)); }
    }

    // ---- units, normalisation (on a and on b)
    for (e, em) in [(&a, &am), (&b, &bm)] {
        let (isu, inv) = lib::<T, _>(&format!("{ctx}: is_unit/inv"), || (e.is_unit(), e.inv()))?;
        ensure!(isu == k.is_unit(em), "{ctx}: is_unit({:?}) = {isu}, reference {}", sv(em), k.is_unit(em));
        ensure!(isu == inv.is_some(), "{ctx}: is_unit({:?}) = {isu} but inv is {}", sv(em), if inv.is_some() { "Some" } else { "None" });
        if let Some(i) = inv { let im = rd(&i)?; ensure!(k.is_one(&k.mul(em, &im)), "{ctx}: e * inv(e) = {:?} != 1 for e = {:?}", sv(&k.mul(em, &im)), sv(em)); }
        let (nu, nz) = lib::<T, _>(&format!("{ctx}: normalizing_unit/normalized"), || (e.normalizing_unit(), e.normalized()))?;
        let (num, nzm) = (rd(&nu)?, rd(&nz)?);
        ensure!(k.is_unit(&num), "{ctx}: normalizing_unit({:?}) = {:?} is not a unit", sv(em), sv(&num));
        ensure!(nzm == k.mul(em, &num), "{ctx}: normalized != e * normalizing_unit");
        ensure!(k.is_normal(&nzm), "{ctx}: normalized({:?}) = {:?} is not in normal form", sv(em), sv(&nzm));
        let again = rd(&lib::<T, _>(&format!("{ctx}: normalized twice"), || nz.normalized())?)?;
        ensure!(again == nzm, "{ctx}: normalisation not idempotent: {:?} -> {:?}", sv(&nzm), sv(&again));
        if let Some(us) = &units {
            for u in us {
                let uem = k.mul(u, em);
                if hpoly && false { continue }
                if let Some(ue) = T::from_rv(&uem) {
                    let n2 = rd(&lib::<T, _>(&format!("{ctx}: normalized(u e)"), || ue.normalized())?)?;
                    ensure!(n2 == nzm, "{ctx}: normalized(u*e) = {:?} != normalized(e) = {:?} for u = {:?}, e = {:?}", sv(&n2), sv(&nzm), sv(u), sv(em));
                }
            }
        }
    }

    let big = |v: &RV| match v { RV::Z(x) => x.bits() > 53, RV::Quad(p, q) => p.bits() > 53 || q.bits() > 53, RV::Q(q) => q.numer().bits() > 53, _ => false };
    let nonunits = !a_zero && !b_zero && !k.is_unit(&am) && !k.is_unit(&bm);
    let unit_quot = k.exact_div(&am, &bm).map(|q| k.is_unit(&q) && !k.is_one(&q)).unwrap_or(false);
    pass = pass.nt(nonunits && (big(&am) || big(&bm) || tie || unit_quot || matches!(k, RK::PQ | RK::PF(_))))
        .label_if(tie, "tie").label_if(big(&am) || big(&bm), "beyond-2^53").label_if(unit_quot, "associates");
    Ok(pass)
}

fn run_c15<T>(c: &Case) -> Chk<Pass> where T: Sc + yui::EucRing + Rounding, for<'a> &'a T: yui::EucRingOps<T> {
    match guard(|| run_ty::<T>(c)) {
        Ok(r) => r,
        Err(m) => if T::machine() && is_arith_overflow(&m) { discard("machine-overflow") } else { bad(format!("panicked: {m}")) },
    }
}

fn run_case(c: &Case) -> Chk<Pass> { if !Ty::EUCLIDEAN.contains(&c.ty) { return discard("type-outside-domain") } crate::dispatch_euc!(c.ty, run_c15(c)) }

// ---------------------------------------------------------------------------

fn elem(ty: Ty, tier: Tier, small: bool) -> BoxedStrategy<Val> {
    let bits = ty.machine_bits();
    // operands are multiplied (shapes) and, for quadratic integers, by conjugates: keep machine coordinates small enough
    let cbits = match ty { Ty::I32 | Ty::I64 | Ty::I128 => bits.map(|b| b / 2 - 1), _ => bits.map(|b| b / 4 - 1) };
    let cbits = if small { cbits.map(|b| b.min(12)).or(Some(12)) } else { cbits };
    let base = int_val(cbits, tier);
    let frac = (base.clone(), base.clone()).prop_map(|(a, b)| Val::Frac(Box::new(a), Box::new(b)));
    match ty.rk() {
        RK::Q | RK::F(_) => prop_oneof![3 => base.clone(), 5 => frac].boxed(),
        RK::Quad(_) => prop_oneof![1 => base.clone(), 6 => (base.clone(), base.clone()).prop_map(|(a, b)| Val::Pair(Box::new(a), Box::new(b)))].boxed(),
        RK::PQ | RK::PF(_) => {
            let c = int_val(Some(4), tier);
            let cf = prop_oneof![4 => c.clone(), 1 => (c.clone(), c.clone()).prop_map(|(a, b)| Val::Frac(Box::new(a), Box::new(b)))];
            if matches!(ty, Ty::HQI64 | Ty::HQBig | Ty::HF3) {
                (0u8..6, cf).prop_map(|(d, c)| Val::Mono(d, Box::new(c))).boxed()
            } else {
                prop::collection::vec(cf, 0..tier.pick(5usize, 8usize)).prop_map(Val::Poly).boxed()
            }
        }
        _ => base,
    }
}

impl Prop for C15 {
    type Case = Case;
    const ID: &'static str = "C15";
    fn rule() -> String {
        "case = (Euclidean type, shape in {free, divisor divides, planted common factor, exact tie, near tie, associates, zero arguments}, operands x,y,g,q, two unit indices); \
         checks a = (a/b) b + a%b with norm drop in three operator forms, div_round exactly rounded (either neighbour at a tie; coordinate-wise in the documented basis for Z[i], Z[w]), \
         gcd divides both / Bezout with gcdx / normalised / symmetric / invariant under units / planted divisor divides it, lcm*gcd ~ ab, is_unit iff inv, a*inv = 1, \
         normalisation idempotent and constant on associates (all units of the ring). \
         non-trivial = both operands non-zero non-units and (magnitude > 2^53, or an exact tie, or associates with a non-trivial unit quotient, or a polynomial ring)".into()
    }
    fn assumptions() -> Vec<String> { vec![
        "reference Euclidean size: |a| (Z), N(a) (Z[i], Z[w]), degree (F[x]); reference normal forms: non-negative / first quadrant-sextant / 1 / monic".into(),
        "arithmetic-overflow panics on machine types are discards".into(),
        "lcm only with a, b not both zero (as the property states)".into() ] }
    fn strategy(tier: Tier) -> BoxedStrategy<Case> {
        let shape = prop_oneof![6 => Just(Shape::Free), 3 => Just(Shape::Multiple), 4 => Just(Shape::Common), 3 => Just(Shape::Tie),
            2 => any::<bool>().prop_map(Shape::NearTie), 3 => Just(Shape::Assoc), 1 => Just(Shape::ZeroA), 1 => Just(Shape::ZeroB), 1 => Just(Shape::ZeroBoth)];
        (prop::sample::select(Ty::EUCLIDEAN.to_vec()), shape).prop_flat_map(move |(ty, shape)| {
            (Just(ty), Just(shape), elem(ty, tier, false), elem(ty, tier, false), elem(ty, tier, true), elem(ty, tier, true), any::<u8>(), any::<u8>())
                .prop_map(|(ty, shape, x, y, g, q, unit, unit2)| Case { ty, shape, x, y, g, q, unit, unit2 })
        }).boxed()
    }
    fn cases(tier: Tier) -> u32 { tier.pick(200_000, 6_000_000) }
    fn shards(_: Tier) -> usize { 16 }
    /// byte-decoded cases beyond the generators' size range (magnitudes to about 10^300, degree <= 6) are skipped: a gcd of two
    /// degree-20 polynomials over Q with 4096-bit coefficients is legitimately slow (libFuzzer timeout after 123 s)
    fn fuzz_in_domain(c: &Case) -> bool {
        use crate::props::c14::val_size;
        [&c.x, &c.y, &c.g, &c.q].iter().all(|v| { let (bits, deg) = val_size(v); bits <= 1100 && deg <= 6 })
    }
    fn run(case: &Case, _ctx: &Ctx) -> Outcome { to_outcome(run_case(case)) }
}

#[allow(unused)]
fn _unused() { let _ = (BigInt::zero(), BigInt::one()); }
