//! C02 Khovanov homology is a link invariant with the expected mirror duality.

use num_bigint::BigInt;
use proptest::prelude::*;
use serde::{Deserialize, Serialize};
use std::collections::BTreeMap;
use yui::{Ratio, FF, FF2};

use crate::engine::*;
use crate::ensure;
use crate::kit::dgen::*;
use crate::kit::diagram::*;
use crate::kit::pools::with_threads;
use crate::props::c01::{lib_bigraded_b, KRing, LibBi};

pub struct C02;

#[derive(Clone, Debug, Serialize, Deserialize)]
pub struct Case { pub iso: IsoSpec, pub ring: KRing, pub reduced: bool, pub threads: u8 }

pub fn table(d: &Dg, ring: KRing, red: bool, threads: usize) -> Result<LibBi, String> {
    let l = d.to_link();
    with_threads(threads, || guard(|| match ring {
        KRing::ZBig => lib_bigraded_b::<BigInt>(&l, red), KRing::Zi64 => lib_bigraded_b::<i64>(&l, red), KRing::Q => lib_bigraded_b::<Ratio<i64>>(&l, red),
        KRing::F2 => lib_bigraded_b::<FF2>(&l, red), KRing::F2c => lib_bigraded_b::<FF<2>>(&l, red), KRing::F3 => lib_bigraded_b::<FF<3>>(&l, red) }))
}

/// normalise torsion to a sorted list of |orders|
pub fn norm(t: &LibBi) -> BTreeMap<(isize, isize), (usize, Vec<BigInt>)> {
    t.iter().map(|(k, (r, ts))| { let mut v: Vec<BigInt> = ts.iter().map(|x| BigInt::from(x.magnitude().clone())).collect(); v.sort(); (*k, (*r, v)) }).collect()
}

fn pure_base_only(d: &Dg) -> bool { d.x.iter().all(|x| x.0 == CT::X) }

fn run_case(c: &Case, tier: Tier) -> Chk<Pass> {
    let b = match build_iso(&c.iso) { Ok(b) => b, Err(e) => return discard(format!("diagram-build: {e}")) };
    let (cap_b, cap_m) = tier.pick((9usize, 16usize), (11usize, 20usize));
    if b.base.ncross() > cap_b || b.moved.ncross() > cap_m { return discard("size-cap") }
    if b.base.orient(0).is_err() || b.moved.orient(0).is_err() { return discard("diagram-invalid") }
    let ncomp = b.base.components().map(|c| c.len()).unwrap_or(0);
    // reduced homology depends on the marked component for links: knots only
    let reduced = c.reduced && ncomp == 1 && !b.base.x.is_empty() && b.base.ncross() > 0;
    let threads = [1usize, 2, 4, 16][c.threads as usize % 4];
    let what = format!("{:?} ring={:?} reduced={reduced} base={:?} moved={:?}", c.iso, c.ring, b.base.x, b.moved.x);
    let what = if what.len() > 1500 { format!("{}...", &what[..1500]) } else { what };
    let ovf = |m: String| -> Bad { if matches!(c.ring, KRing::Zi64 | KRing::Q) && is_arith_overflow(&m) { Bad::Discard("machine-overflow".into()) } else { Bad::Fail(format!("{what}: library panicked: {m}")) } };
    let t0 = norm(&table(&b.base, c.ring, reduced, threads).map_err(ovf)?);
    let t1 = norm(&table(&b.moved, c.ring, reduced, threads).map_err(ovf)?);
    ensure!(t0 == t1, "{what}: bigraded Khovanov homology differs between two diagrams of the same oriented link:\n  base : {:?}\n  moved: {:?}", t0, t1);
    // mirror duality: free (i,j) -> (-i,-j), torsion (i,j) -> (1-i,-j)   (unreduced; reduced for knots as well)
    let m = norm(&table(&b.base.mirror_type(), c.ring, reduced, threads).map_err(ovf)?);
    let mut want: BTreeMap<(isize, isize), (usize, Vec<BigInt>)> = BTreeMap::new();
    for ((i, j), (r, ts)) in &t0 {
        if *r > 0 { want.entry((-i, -j)).or_insert((0, vec![])).0 += r; }
        if !ts.is_empty() { let e = want.entry((1 - i, -j)).or_insert((0, vec![])); e.1.extend(ts.iter().cloned()); e.1.sort(); }
    }
    ensure!(m == want, "{what}: mirror image table {:?} is not the dual of {:?} (expected {:?})", m, t0, want);
    if b.base.x.iter().all(|x| x.0 == CT::X) && b.base.ncross() > 0 {
        let m2 = norm(&table(&b.base.mirror_pd().map_err(Bad::Fail)?, c.ring, reduced, threads).map_err(ovf)?);
        ensure!(m2 == want, "{what}: mirror image given as a PD code has table {:?}, expected {:?}", m2, want);
    }
    // closed-braid bases: the library's own Braid::closure of the word before and after the braid moves
    if let Some(((n0, w0), (n1, w1))) = &b.words {
        use yui_link::{Braid, Generator};
        let lc = |n: usize, w: &Vec<i32>| -> Result<Dg, String> { guard(|| { let l = Braid::new(n, w.iter().map(|x| Generator::from(*x)).collect()).closure(); Dg::from_pd(&l.data().iter().map(|x| *x.edges()).collect::<Vec<_>>()) }) };
        let (c0, c1) = (lc(*n0, w0).map_err(|m| Bad::Fail(format!("{what}: Braid::closure panicked: {m}")))?, lc(*n1, w1).map_err(|m| Bad::Fail(format!("{what}: Braid::closure panicked: {m}")))?);
        if c0.ncross() <= cap_m && c1.ncross() <= cap_m {
            let reduced_b = reduced;
            let u0 = norm(&table(&c0, c.ring, reduced_b, threads).map_err(ovf)?);
            let u1 = norm(&table(&c1, c.ring, reduced_b, threads).map_err(ovf)?);
            ensure!(u0 == u1, "{what}: Braid::closure of {:?} and of the moved word {:?} have different Khovanov homology:\n  {:?}\n  {:?}", w0, w1, u0, u1);
            // the reduced theory of a link depends on the marked component, so the comparison with the harness's own closure is unreduced or for knots
            let tb = if pure_base_only(&b.base) { norm(&table(&b.base, c.ring, reduced_b, threads).map_err(ovf)?) } else { u0.clone() };
            ensure!(u0 == tb, "{what}: Braid::closure of {:?} has Khovanov homology {:?}, the harness's own closure of the same word {:?}", w0, u0, tb);
        }
    }
    let tors = t0.values().any(|v| !v.1.is_empty());
    Ok(Pass::new().nt(b.r23_moves > 0 || b.kinks > 0 || tors).label(format!("ring:{:?}", c.ring)).label_if(b.r23_moves > 0, "R2/R3/Markov-move").label_if(b.kinks > 0, "R1-kink")
        .label_if(tors, "torsion").label_if(reduced, "reduced").label_if(ncomp >= 2, "multi-component").label_if(b.moved.nfree() > 0 || b.base.nfree() > 0, "over-only-component"))
}

impl Prop for C02 {
    type Case = Case;
    const ID: &'static str = "C02";
    fn rule() -> String {
        "case = (base diagram with <= 9 (11) crossings; a history of braid moves (far commutation, braid relation = R3, sigma sigma^-1 insertion/removal = R2, conjugation, +-stabilisation = Markov/R1) on closed-braid bases and PD moves (R1 kinks of four kinds on any edge, edge renumbering, crossing reordering, reversal of all orientations [a,b,c,d] -> [c,d,a,b]); ring in {BigInt, i64, Ratio<i64>, FF2, FF<2>, FF<3>}; reduced (knots only); threads). \
         oracle: the bigraded table (rank and sorted torsion orders per bidegree, from KhComplexBigraded.homology) of the moved diagram equals that of the base; the table of the mirror image (type switch, and independently the mirror written as a PD code) is the dual: free (i,j) -> (-i,-j), torsion (i,j) -> (1-i,-j). \
         non-trivial = at least one R2/R3/stabilisation move or kink, or a table with torsion".into()
    }
    fn strategy(tier: Tier) -> BoxedStrategy<Case> {
        let ring = prop_oneof![4 => Just(KRing::ZBig), 1 => Just(KRing::Zi64), 3 => Just(KRing::Q), 1 => Just(KRing::F2), 1 => Just(KRing::F2c), 2 => Just(KRing::F3)];
        (iso_strategy(tier.pick(8, 10), tier.pick(6, 15)), ring, any::<bool>(), any::<u8>()).prop_map(|(iso, ring, reduced, threads)| Case { iso, ring, reduced, threads }).boxed()
    }
    fn cases(tier: Tier) -> u32 { tier.pick(5_000, 80_000) }
    fn shards(tier: Tier) -> usize { tier.pick(8, 16) }
    fn replay_repeats() -> usize { 5 }
    fn run(case: &Case, ctx: &Ctx) -> Outcome { to_outcome(run_case(case, ctx.tier)) }
}
