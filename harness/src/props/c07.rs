//! C07 Homology of any chain complex over a Euclidean domain is computed correctly.
//! Complexes are built by construction: d_k = U_{k+1} D_k U_k^-1 with planted ranks and torsion.

use num_bigint::BigInt;
use num_integer::Integer;
use num_traits::Zero;
use proptest::prelude::*;
use serde::{Deserialize, Serialize};
use yui_homology::utils::HomologyCalc;
use yui_homology::{ChainComplexTrait, ComputeHomology, GenericChainComplex, GridTrait, SummandTrait};
use yui_matrix::sparse::SpMat;
use yui_matrix::MatTrait;

use crate::engine::*;
use crate::ensure;
use crate::kit::matgen::*;
use crate::kit::refalg::*;
use crate::kit::refmat::*;
use crate::kit::sc::*;
use crate::props::c14::{resolve, Val};

pub struct C07;

/// per degree: (a: part hit by the incoming map is determined by the previous b), b = rank of the outgoing map, c = free homology rank
#[derive(Clone, Debug, Serialize, Deserialize)]
pub struct Deg { pub b: u8, pub c: u8, pub factors: Vec<Val>, pub chain: bool, pub ops: Vec<(u8, u8, u8, i8)> }

#[derive(Clone, Debug, Serialize, Deserialize)]
pub struct Case { pub ty: Ty, pub degs: Vec<Deg> }

pub const TYPES: &[Ty] = &[Ty::I64, Ty::I128, Ty::Big, Ty::Big, Ty::QI64, Ty::QBig, Ty::F2, Ty::FF3, Ty::FF5, Ty::GI64, Ty::GBig, Ty::EI64, Ty::EBig, Ty::PQBig, Ty::PF3];

pub struct Planted { pub k: RK, pub ranks: Vec<usize>, pub d: Vec<RM>, pub free: Vec<usize>, pub tors: Vec<Option<Vec<RV>>>, pub tors_count: Vec<usize> }

/// merge a list of non-zero integers into the divisibility chain of invariant factors (Z only)
fn chain_z(mut v: Vec<BigInt>) -> Vec<BigInt> {
    loop {
        let mut changed = false;
        for i in 0..v.len() { for j in i + 1..v.len() {
            let g = v[i].gcd(&v[j]); let l = v[i].lcm(&v[j]);
            if v[i] != g || v[j] != l { if !(v[i].magnitude() == g.magnitude() && v[j].magnitude() == l.magnitude()) { changed = true; } v[i] = g; v[j] = l; }
        } }
        if !changed { break }
    }
    v
}

pub fn plant(k: RK, bits: Option<u32>, degs: &[Deg], maxb: usize) -> Planted {
    let rs = |v: &Val| resolve(v, &k, bits, &k.zero(), &[]).unwrap_or_else(|| k.one());
    let l = degs.len();
    let b: Vec<usize> = degs.iter().enumerate().map(|(i, d)| if i + 1 == l { 0 } else { d.b as usize % (maxb + 1) }).collect();
    let c: Vec<usize> = degs.iter().map(|d| d.c as usize % (maxb + 1)).collect();
    let a: Vec<usize> = (0..l).map(|i| if i == 0 { 0 } else { b[i - 1] }).collect();
    let ranks: Vec<usize> = (0..l).map(|i| a[i] + b[i] + c[i]).collect();
    // layout of C_i: [a_i | b_i | c_i]
    let mut ds = vec![]; let mut tors = vec![None; l]; let mut tors_count = vec![0; l];
    let mut us: Vec<(RM, RM)> = (0..l).map(|i| unimodular(k, ranks[i], &degs[i].ops)).collect();
    us.push((RM::id(k, 0), RM::id(k, 0)));
    for i in 0..l {
        let (m, n) = (if i + 1 < l { ranks[i + 1] } else { 0 }, ranks[i]);
        let mut dm = RM::zero(k, m, n);
        let mut fs: Vec<RV> = (0..b[i]).map(|t| { let v = degs[i].factors.get(t).map(|v| rs(v)).unwrap_or_else(|| k.one()); if k.is_zero(&v) { k.one() } else { v } }).collect();
        if degs[i].chain { for t in 1..fs.len() { fs[t] = k.mul(&fs[t - 1], &fs[t]); } }
        for t in 0..b[i] { dm.a[t][a[i] + t] = fs[t].clone(); } // block b_i of C_i -> block a_{i+1} of C_{i+1}
        let d = if i + 1 < l { us[i + 1].0.mul(&dm).mul(&us[i].1) } else { dm };
        ds.push(d);
        if i + 1 < l {
            let nonunits: Vec<RV> = fs.iter().filter(|f| !k.is_unit(f)).cloned().collect();
            tors_count[i + 1] = nonunits.len();
            tors[i + 1] = if degs[i].chain { Some(nonunits) } else if k == RK::Z {
                let zs: Vec<BigInt> = fs.iter().map(|f| match f { RV::Z(z) => z.clone(), _ => unreachable!() }).collect();
                Some(chain_z(zs).into_iter().filter(|z| !z.magnitude().is_one_()).map(RV::Z).collect())
            } else if k.is_field() { Some(vec![]) } else { None };
        }
    }
    tors[0] = Some(vec![]);
    Planted { k, ranks, d: ds, free: c, tors, tors_count }
}

trait IsOne { fn is_one_(&self) -> bool; }
impl IsOne for num_bigint::BigUint { fn is_one_(&self) -> bool { use num_traits::One; self.is_one() } }

fn lib<T: Sc, R>(what: &str, f: impl FnOnce() -> R) -> Chk<R> {
    match guard(f) {
        Ok(v) => Ok(v),
        Err(m) => if T::machine() && is_arith_overflow(&m) { discard("machine-overflow") } else { bad(format!("{what}: panicked: {m}")) },
    }
}

fn run_ty<T>(c: &Case, tier: Tier) -> Chk<Pass> where T: Sc + yui::EucRing, for<'x> &'x T: yui::EucRingOps<T> {
    let k = T::rk();
    let maxb = tier.pick(3usize, 5usize);
    let p = plant(k, c.ty.machine_bits(), &c.degs, maxb);
    let l = p.ranks.len();
    // d.d = 0 in the reference (sanity of the construction)
    for i in 0..l.saturating_sub(1) { if !p.d[i + 1].mul(&p.d[i]).is_zero() { return bad("harness: planted complex is not a complex") } }
    let mut sps: Vec<SpMat<T>> = vec![];
    for d in &p.d { let Some(s) = rm_to_sp::<T>(d) else { return discard("unrepresentable-operand") }; sps.push(s); }
    let what = format!("[{}] ranks {:?}, d = {:?}", k.name(), p.ranks, p.d.iter().map(|d| d.show()).collect::<Vec<_>>());
    let what = if what.len() > 1800 { format!("{}...", &what[..1800]) } else { what };
    let (mut has_tors, mut zero_nb, mut both) = (false, false, false);
    let mut calc: Vec<(usize, Vec<RV>)> = vec![];

    // ---- HomologyCalc::calculate per degree
    for i in 0..l {
        let n = p.ranks[i];
        let d_in: SpMat<T> = if i == 0 { SpMat::zero((n, 0)) } else { sps[i - 1].clone() };
        let d_out: SpMat<T> = sps[i].clone();
        let (din_m, dout_m) = (if i == 0 { RM::zero(k, n, 0) } else { p.d[i - 1].clone() }, p.d[i].clone());
        let w = format!("{what}: degree {i}");
        let (rank, tors, trans) = lib::<T, _>(&w, || HomologyCalc::calculate(d_in.clone(), d_out.clone(), true))?;
        ensure!(rank == p.free[i], "{w}: rank {rank}, expected n - rank(d_in) - rank(d_out) = {}", p.free[i]);
        let tm: Vec<RV> = tors.iter().map(|t| t.to_rv()).collect();
        if let Some(exp) = &p.tors[i] {
            ensure!(tm.len() == exp.len() && tm.iter().zip(exp.iter()).all(|(x, y)| k.associates(x, y)), "{w}: torsion {:?}, expected (up to units) {:?}", tm.iter().map(SV::of).collect::<Vec<_>>(), exp.iter().map(SV::of).collect::<Vec<_>>());
        }
        for t in &tm { ensure!(!k.is_zero(t) && !k.is_unit(t), "{w}: torsion order {:?} is zero or a unit", SV::of(t)); }
        for t in 1..tm.len() { ensure!(k.divides(&tm[t - 1], &tm[t]), "{w}: torsion orders are not a divisibility chain"); }
        // product of torsion orders is an invariant (order ideal): equals the product of the planted non-units
        let tr = trans.unwrap();
        let (pm, qm) = (match sp_to_rm(&tr.forward_mat()) { Ok(m) => m, Err(e) => return bad(format!("{w}: {e}")) }, match sp_to_rm(&tr.backward_mat()) { Ok(m) => m, Err(e) => return bad(format!("{w}: {e}")) });
        let dim = rank + tm.len();
        ensure!(pm.shape() == (dim, n) && qm.shape() == (n, dim), "{w}: coordinate maps have shapes {:?}, {:?}", pm.shape(), qm.shape());
        ensure!(dout_m.mul(&qm).is_zero(), "{w}: a reported generator is not a cycle: d_out * Q = {}", dout_m.mul(&qm).show());
        let pb = pm.mul(&din_m);
        for r in 0..dim { for cc in 0..pb.n {
            let x = &pb.a[r][cc];
            if r < rank { ensure!(k.is_zero(x), "{w}: the coordinate map does not send a boundary to zero (free coordinate {r}): P d_in = {}", pb.show()); }
            else { ensure!(k.divides(&tm[r - rank], x), "{w}: boundary has coordinate {:?} at a torsion index of order {:?}: P d_in = {}", SV::of(x), SV::of(&tm[r - rank]), pb.show()); }
        } }
        let pq = pm.mul(&qm);
        for r in 0..dim { for cc in 0..dim {
            let want = if r == cc { k.one() } else { k.zero() };
            let diff = k.sub(&pq.a[r][cc], &want);
            if r < rank { ensure!(k.is_zero(&diff), "{w}: coordinates of the generators are not the standard basis: P Q = {}", pq.show()); }
            else { ensure!(k.divides(&tm[r - rank], &diff) || k.is_zero(&diff), "{w}: coordinates of the generators are not the standard basis modulo torsion: P Q = {}", pq.show()); }
        } }
        // a torsion generator times its order is a boundary: t_j * q_j in im(d_in)  <=> P-coordinates vanish mod torsion (already) and it is a cycle
        // without coordinate maps: same rank and torsion
        let (rank2, tors2, tr2) = lib::<T, _>(&w, || HomologyCalc::calculate(d_in.clone(), d_out.clone(), false))?;
        ensure!(tr2.is_none(), "{w}: transform returned although not requested");
        let tm2: Vec<RV> = tors2.iter().map(|t| t.to_rv()).collect();
        ensure!(rank2 == rank && tm2.len() == tm.len() && tm2.iter().zip(tm.iter()).all(|(x, y)| k.associates(x, y)), "{w}: without coordinate maps the answer is rank {rank2}, torsion {:?}; with them rank {rank}, torsion {:?}", tm2.iter().map(SV::of).collect::<Vec<_>>(), tm.iter().map(SV::of).collect::<Vec<_>>());
        if !tm.is_empty() { has_tors = true; }
        calc.push((rank, tm.clone()));
        if n > 0 && (din_m.n == 0 || dout_m.m == 0 || p.ranks.get(i + 1) == Some(&0)) { zero_nb = true; }
        if !din_m.is_zero() && !dout_m.is_zero() { both = true; }
    }

    // ---- the complex API: GenericChainComplex::generate(..).homology()
    let sp2 = sps.clone();
    let cx = lib::<T, _>(&what, || GenericChainComplex::<T>::generate(0..=(l as isize - 1), 1, move |i| sp2[i as usize].clone()))?;
    let h = lib::<T, _>(&what, || cx.homology())?;
    let h0 = lib::<T, _>(&what, || cx.compute_homology(false))?;
    for i in 0..l {
        let w = format!("{what}: complex API, degree {i}");
        let s = &h[i as isize];
        ensure!(cx.rank(i as isize) == p.ranks[i], "{w}: rank of C_{i}");
        let st: Vec<RV> = s.tors().iter().map(|t| t.to_rv()).collect();
        ensure!(s.rank() == calc[i].0 && st.len() == calc[i].1.len() && st.iter().zip(calc[i].1.iter()).all(|(x, y)| k.associates(x, y)), "{w}: H = rank {} torsion {:?}, but HomologyCalc gave rank {} torsion {:?}", s.rank(), s.tors(), calc[i].0, calc[i].1.iter().map(SV::of).collect::<Vec<_>>());
        ensure!(h0[i as isize].rank() == s.rank() && h0[i as isize].tors().len() == s.tors().len(), "{w}: compute_homology(false) differs from homology()");
        let dim = s.rank() + s.tors().len();
        for j in 0..dim {
            let g = lib::<T, _>(&w, || s.gen(j))?;
            let dg = lib::<T, _>(&w, || cx.d(i as isize, &g))?;
            ensure!(dg.is_zero(), "{w}: d(gen({j})) = {:?} != 0", dg);
            let v = lib::<T, _>(&w, || s.vectorize(&g))?;
            let vm = match spvec_to_rm(&v) { Ok(m) => m, Err(e) => return bad(format!("{w}: {e}")) };
            for r in 0..dim {
                let want = if r == j { k.one() } else { k.zero() };
                let diff = k.sub(&vm.a[r][0], &want);
                if r < s.rank() { ensure!(k.is_zero(&diff), "{w}: vectorize(gen({j})) = {} is not e_{j}", vm.show()); }
                else { let t = s.tors()[r - s.rank()].to_rv(); ensure!(k.is_zero(&diff) || k.divides(&t, &diff), "{w}: vectorize(gen({j})) = {} is not e_{j} modulo torsion", vm.show()); }
            }
        }
    }

    // boundaries have zero coordinates: vectorize (free part zero, torsion part divisible by the order) and vectorize_euc (reduced: exactly zero);
    // vectorize_euc(gen(j) + boundary) = e_j modulo the torsion orders
    for i in 1..l {
        let w = format!("{what}: complex API, degree {i}");
        let s = &h[i as isize];
        let (rank, dim) = (s.rank(), s.rank() + s.tors().len());
        let tv: Vec<RV> = s.tors().iter().map(|t| t.to_rv()).collect();
        for j in 0..p.ranks[i - 1] {
            let x = lib::<T, _>(&w, || cx[i as isize - 1].gen(j))?;
            let b = lib::<T, _>(&w, || cx.d(i as isize - 1, &x))?;
            let v = lib::<T, _>(&w, || s.vectorize(&b))?;
            let vm = match spvec_to_rm(&v) { Ok(m) => m, Err(e) => return bad(format!("{w}: {e}")) };
            ensure!(vm.m == dim, "{w}: vectorize returns a vector of dimension {}, H has {dim} summands", vm.m);
            for r in 0..dim {
                if r < rank { ensure!(k.is_zero(&vm.a[r][0]), "{w}: vectorize(d e_{j}) = {} has a non-zero free coordinate", vm.show()); }
                else { ensure!(k.divides(&tv[r - rank], &vm.a[r][0]), "{w}: vectorize(d e_{j}) = {} is not zero modulo the torsion orders {:?}", vm.show(), tv.iter().map(SV::of).collect::<Vec<_>>()); }
            }
            let ve = lib::<T, _>(&w, || s.vectorize_euc(&b))?;
            let vem = match spvec_to_rm(&ve) { Ok(m) => m, Err(e) => return bad(format!("{w}: {e}")) };
            ensure!(vem.m == dim && vem.is_zero(), "{w}: vectorize_euc(d e_{j}) = {} is not zero (torsion orders {:?}, vectorize gives {})", vem.show(), tv.iter().map(SV::of).collect::<Vec<_>>(), vm.show());
            if dim > 0 {
                let jj = j % dim;
                let z = lib::<T, _>(&w, || s.gen(jj) + &b)?;
                let vz = lib::<T, _>(&w, || s.vectorize_euc(&z))?;
                let vzm = match spvec_to_rm(&vz) { Ok(m) => m, Err(e) => return bad(format!("{w}: {e}")) };
                for r in 0..dim {
                    let diff = k.sub(&vzm.a[r][0], &if r == jj { k.one() } else { k.zero() });
                    if r < rank { ensure!(k.is_zero(&diff), "{w}: vectorize_euc(gen({jj}) + d e_{j}) = {} is not e_{jj}", vzm.show()); }
                    else { ensure!(k.is_zero(&diff) || k.divides(&tv[r - rank], &diff), "{w}: vectorize_euc(gen({jj}) + d e_{j}) = {} is not e_{jj} modulo the torsion orders", vzm.show()); }
                }
            }
        }
    }

    let zero_dim = p.ranks.iter().any(|r| *r == 0);
    Ok(Pass::new().nt(has_tors || zero_nb || both).label(format!("ty:{:?}", c.ty)).label_if(has_tors, "torsion").label_if(zero_dim, "zero-dimensional-degree").label_if(both, "d_in,d_out-both-nonzero").label(format!("length:{l}")))
}

fn run_c07<T>(c: &Case, tier: Tier) -> Chk<Pass> where T: Sc + yui::EucRing, for<'x> &'x T: yui::EucRingOps<T> {
    match guard(|| run_ty::<T>(c, tier)) {
        Ok(r) => r,
        Err(m) => if T::machine() && is_arith_overflow(&m) { discard("machine-overflow") } else { bad(format!("panicked: {m}")) },
    }
}

fn run_case(c: &Case, tier: Tier) -> Chk<Pass> { crate::dispatch_euc!(c.ty, run_c07(c, tier)) }

pub fn deg_strategy(ty: Ty, tier: Tier) -> BoxedStrategy<Deg> {
    let f = prop_oneof![3 => Just(Val::One), 1 => Just(Val::MinusOne), 6 => elem(ty, tier, 0), 1 => elem(ty, tier, 1)];
    (0u8..6, 0u8..6, prop::collection::vec(f, 0..6), any::<bool>(), prop::collection::vec((0u8..3, any::<u8>(), any::<u8>(), -2i8..=2), 0..14))
        .prop_map(|(b, c, factors, chain, ops)| Deg { b, c, factors, chain, ops }).boxed()
}

impl Prop for C07 {
    type Case = Case;
    const ID: &'static str = "C07";
    fn rule() -> String {
        "case = (ring among i64, i128, BigInt, Ratio<i64>, Ratio<BigInt>, F2, F3, F5, Gauss/Eisenstein over i64 and BigInt, Q[x], F3[x]; complex of length 1..4 built by construction d_k = U_k+1 D_k U_k^-1 with chosen ranks (0..3 per block, so 0-dimensional degrees and all-zero maps occur), planted diagonal factors (units, 2, 3, 4, 6, 1+i, x, x^2+1, ..; optionally a divisibility chain) and unimodular U_k from random elementary operations). \
         per degree, HomologyCalc::calculate(d_in, d_out, true): rank == planted free rank, torsion == planted non-unit factors up to units (chain planted, or merged by gcd/lcm over Z), divisibility chain, d_out Q = 0 (generators are cycles), P d_in = 0 on free coordinates and divisible by the torsion order on torsion coordinates, P Q = I (modulo torsion), same rank/torsion with with_trans = false; \
         GenericChainComplex::generate(..).homology(): ranks, d(gen(j)) = 0, vectorize(gen(j)) = e_j (mod torsion), compute_homology(false) consistent, and for every basis element e of C_{i-1}: vectorize(d e) is zero modulo the torsion orders, vectorize_euc(d e) = 0, vectorize_euc(gen(j) + d e) = e_j modulo the torsion orders. \
         non-trivial = torsion present, or a zero-dimensional neighbour, or d_in and d_out both non-zero".into()
    }
    fn assumptions() -> Vec<String> { vec!["the planted construction and reference products are trusted; arithmetic-overflow panics of machine types are discards".into()] }
    fn strategy(tier: Tier) -> BoxedStrategy<Case> {
        prop::sample::select(TYPES.to_vec()).prop_flat_map(move |ty| {
            (Just(ty), prop::collection::vec(deg_strategy(ty, tier), 1..5)).prop_map(|(ty, degs)| Case { ty, degs })
        }).boxed()
    }
    fn cases(tier: Tier) -> u32 { tier.pick(40_000, 800_000) }
    fn shards(_: Tier) -> usize { 16 }
    fn run(case: &Case, ctx: &Ctx) -> Outcome { to_outcome(run_case(case, ctx.tier)) }
}
