//! C17 Bit sequences behave as sequences of at most 64 bits.
//! Stateful model-based check: BitSeq against Vec<bool>.

use proptest::prelude::*;
use serde::{Deserialize, Serialize};
use std::cmp::Ordering;
use std::str::FromStr;
use yui::bitseq::{Bit, BitSeq};

use crate::engine::*;
use crate::ensure;

pub struct C17;

#[derive(Clone, Debug, Serialize, Deserialize)]
pub enum Init {
    Empty,
    New(Vec<bool>),
    NewRev(Vec<bool>),
    Zeros(usize),
    Ones(usize),
    FromIter(Vec<bool>),
    FromStr(Vec<bool>),
    FromArr8([bool; 8]),
    FromBit(bool),
    Default,
}

#[derive(Clone, Debug, Serialize, Deserialize)]
pub enum Op {
    Push(bool),
    Push0,
    Push1,
    Append(Vec<bool>),
    AddAssign(Vec<bool>),
    AddRef(Vec<bool>),
    Insert(u16, bool),
    Insert0(u16),
    Insert1(u16),
    Remove(u16),
    Set(u16, bool),
    Set0(u16),
    Set1(u16),
    Sub(u16),
    SubFull,
    EditPushRemove(bool, u16),
    Cmp(Vec<bool>),
    CmpPerturb(u16),
    IsSub(Vec<bool>),
    IsSubOfExtension(Vec<bool>),
    PrefixIsSub(u16),
    StrRoundTrip,
    Generate(usize),
}

#[derive(Clone, Debug, Serialize, Deserialize)]
pub struct Case { pub init: Init, pub ops: Vec<Op> }

fn to_val(bits: &[bool]) -> u64 {
    bits.iter().enumerate().fold(0u64, |a, (i, b)| if *b { a | (1u64 << i) } else { a })
}

fn mk(bits: &[bool]) -> BitSeq {
    BitSeq::new(to_val(bits), bits.len())
}

fn idx(i: u16, n: usize) -> usize { ((i as usize) * n) >> 16 } // monotone map onto 0..n

fn model_cmp(a: &[bool], b: &[bool]) -> Ordering {
    let wa = a.iter().filter(|x| **x).count();
    let wb = b.iter().filter(|x| **x).count();
    a.len().cmp(&b.len()).then(wa.cmp(&wb)).then(to_val(a).cmp(&to_val(b)))
}

fn same(s: &BitSeq, m: &[bool], what: &str) -> Chk {
    ensure!(s.len() == m.len(), "{what}: len {} != model {}", s.len(), m.len());
    let got: Vec<bool> = s.iter().map(|b| b.is_one()).collect();
    ensure!(got == m, "{what}: iter() {:?} != model {:?}", got, m);
    ensure!(s.is_empty() == m.is_empty(), "{what}: is_empty");
    ensure!(s.weight() == m.iter().filter(|b| **b).count(), "{what}: weight {} != model", s.weight());
    ensure!(s.as_u64() == to_val(m), "{what}: as_u64 {:#x} != model {:#x}", s.as_u64(), to_val(m));
    for (i, b) in m.iter().enumerate() {
        ensure!(s[i].is_one() == *b, "{what}: index {i}");
    }
    let str_m: String = m.iter().map(|b| if *b { '1' } else { '0' }).collect();
    ensure!(s.to_string() == str_m, "{what}: to_string {} != {}", s.to_string(), str_m);
    ensure!(*s == mk(m), "{what}: != freshly built equal sequence");
    ensure!(s.cmp(&mk(m)) == Ordering::Equal, "{what}: cmp with equal sequence is not Equal");
    Ok(())
}

/// `f` must be rejected (panic or Err); returns Err(Fail) if it produced a value.
fn must_reject<T: std::fmt::Debug>(what: &str, f: impl FnOnce() -> Option<T>) -> Chk {
    match guard(f) {
        Err(_) => Ok(()),
        Ok(None) => Ok(()),
        Ok(Some(v)) => bad(format!("{what}: exceeds the maximum length 64 but was accepted, giving {:?}", v)),
    }
}

fn valid<T>(what: &str, f: impl FnOnce() -> T) -> Chk<T> {
    match guard(f) {
        Ok(v) => Ok(v),
        Err(m) => bad(format!("{what}: valid operation panicked: {m}")),
    }
}

const MAX: usize = 64;

fn run_case(c: &Case) -> Chk<Pass> {
    let mut pass = Pass::new();
    // ---- init
    let (mut s, mut m): (BitSeq, Vec<bool>) = match &c.init {
        Init::Empty => (valid("empty", BitSeq::empty)?, vec![]),
        Init::Default => (BitSeq::default(), vec![]),
        Init::New(b) => {
            if b.len() > MAX {
                must_reject("new(len>64)", || Some(BitSeq::new(to_val(&b[..64]), b.len())))?;
                return Ok(pass.label("reject:new"));
            }
            (valid("new", || BitSeq::new(to_val(b), b.len()))?, b.clone())
        }
        Init::NewRev(b) => {
            if b.len() > MAX {
                must_reject("new_rev(len>64)", || Some(BitSeq::new_rev(to_val(&b[..64]), b.len())))?;
                return Ok(pass.label("reject:new_rev"));
            }
            let mut r = b.clone(); r.reverse();
            (valid("new_rev", || BitSeq::new_rev(to_val(b), b.len()))?, r)
        }
        Init::Zeros(n) => {
            if *n > MAX { must_reject("zeros(>64)", || Some(BitSeq::zeros(*n)))?; return Ok(pass.label("reject:zeros")); }
            (valid("zeros", || BitSeq::zeros(*n))?, vec![false; *n])
        }
        Init::Ones(n) => {
            if *n > MAX { must_reject("ones(>64)", || Some(BitSeq::ones(*n)))?; return Ok(pass.label("reject:ones")); }
            (valid("ones", || BitSeq::ones(*n))?, vec![true; *n])
        }
        Init::FromIter(b) => {
            if b.len() > MAX {
                must_reject("from_iter(>64 items)", || Some(BitSeq::from_iter(b.iter().cloned())))?;
                return Ok(pass.label("reject:from_iter"));
            }
            (valid("from_iter", || BitSeq::from_iter(b.iter().cloned()))?, b.clone())
        }
        Init::FromStr(b) => {
            let st: String = b.iter().map(|x| if *x { '1' } else { '0' }).collect();
            if b.len() > MAX {
                must_reject("from_str(>64 chars)", || BitSeq::from_str(&st).ok())?;
                return Ok(pass.label("reject:from_str"));
            }
            match valid("from_str", || BitSeq::from_str(&st))? {
                Ok(v) => (v, b.clone()),
                Err(e) => return bad(format!("from_str({st}) -> Err({e})")),
            }
        }
        Init::FromArr8(a) => (valid("from [bool;8]", || BitSeq::from(*a))?, a.to_vec()),
        Init::FromBit(b) => (valid("from bit", || BitSeq::from(*b))?, vec![*b]),
    };
    same(&s, &m, "after init")?;
    let mut maxlen = m.len();

    // ---- ops
    for (k, op) in c.ops.iter().enumerate() {
        let what = format!("op #{k} {:?} on len {}", op, m.len());
        match op {
            Op::Push(_) | Op::Push0 | Op::Push1 => {
                let b = match op { Op::Push(b) => *b, Op::Push0 => false, _ => true };
                let f = |mut t: BitSeq| { match op { Op::Push(b) => t.push(Bit::from(*b)), Op::Push0 => t.push_0(), _ => t.push_1() }; t };
                if m.len() + 1 > MAX {
                    must_reject(&what, || Some(f(s)))?;
                    pass = pass.label("reject:push");
                } else {
                    s = valid(&what, || f(s))?;
                    m.push(b);
                }
            }
            Op::Append(o) | Op::AddAssign(o) | Op::AddRef(o) => {
                if o.len() > MAX { continue }
                let os = mk(o);
                let f = |mut t: BitSeq| -> BitSeq {
                    match op {
                        Op::Append(_) => { t.append(os); t }
                        Op::AddAssign(_) => { t += os; t }
                        _ => &t + &os,
                    }
                };
                if m.len() + o.len() > MAX {
                    must_reject(&what, || Some(f(s)))?;
                    pass = pass.label("reject:append");
                } else {
                    s = valid(&what, || f(s))?;
                    m.extend(o.iter().cloned());
                }
            }
            Op::Insert(_, _) | Op::Insert0(_) | Op::Insert1(_) => {
                let (i, b) = match op { Op::Insert(i, b) => (*i, *b), Op::Insert0(i) => (*i, false), Op::Insert1(i) => (*i, true), _ => unreachable!() };
                let pos = idx(i, m.len() + 1);
                let f = |mut t: BitSeq| { match op { Op::Insert(_, b) => t.insert(pos, Bit::from(*b)), Op::Insert0(_) => t.insert_0(pos), _ => t.insert_1(pos) }; t };
                if m.len() + 1 > MAX {
                    must_reject(&what, || Some(f(s)))?;
                    pass = pass.label("reject:insert");
                } else {
                    s = valid(&what, || f(s))?;
                    m.insert(pos, b);
                }
            }
            Op::Remove(i) => {
                if m.is_empty() { continue }
                let pos = idx(*i, m.len());
                s = valid(&what, || { let mut t = s; t.remove(pos); t })?;
                m.remove(pos);
            }
            Op::Set(_, _) | Op::Set0(_) | Op::Set1(_) => {
                if m.is_empty() { continue }
                let (i, b) = match op { Op::Set(i, b) => (*i, *b), Op::Set0(i) => (*i, false), Op::Set1(i) => (*i, true), _ => unreachable!() };
                let pos = idx(i, m.len());
                s = valid(&what, || { let mut t = s; match op { Op::Set(_, b) => t.set(pos, Bit::from(*b)), Op::Set0(_) => t.set_0(pos), _ => t.set_1(pos) }; t })?;
                m[pos] = b;
            }
            Op::Sub(i) => {
                let l = idx(*i, m.len() + 1);
                s = valid(&what, || s.sub(l))?;
                m.truncate(l);
            }
            Op::SubFull => {
                let l = m.len();
                s = valid(&what, || s.sub(l))?;
            }
            Op::EditPushRemove(b, i) => {
                if m.len() + 1 > MAX { continue }
                let pos = idx(*i, m.len() + 1);
                let before = s;
                let t = valid(&what, || s.edit(|x| { x.push(Bit::from(*b)); x.remove(pos); }))?;
                let mut mm = m.clone(); mm.push(*b); mm.remove(pos);
                same(&before, &m, &format!("{what}: edit must not change the receiver"))?;
                s = t; m = mm;
            }
            Op::Cmp(o) => {
                if o.len() > MAX { continue }
                let os = mk(o);
                let want = model_cmp(&m, o);
                let got = valid(&what, || s.cmp(&os))?;
                ensure!(got == want, "{what}: cmp = {:?}, model (len, weight, value) = {:?}", got, want);
                ensure!(os.cmp(&s) == want.reverse(), "{what}: cmp not antisymmetric");
                ensure!(s.partial_cmp(&os) == Some(want), "{what}: partial_cmp inconsistent");
                ensure!((s == os) == (want == Ordering::Equal), "{what}: Equal iff ==");
                ensure!((s < os) == (want == Ordering::Less) && (s > os) == (want == Ordering::Greater), "{what}: < / >");
            }
            Op::CmpPerturb(i) => {
                if m.is_empty() { continue }
                let pos = idx(*i, m.len());
                let mut o = m.clone(); o[pos] = !o[pos];
                let os = mk(&o);
                let want = model_cmp(&m, &o);
                ensure!(s.cmp(&os) == want, "{what}: cmp with one flipped bit = {:?}, model {:?}", s.cmp(&os), want);
                ensure!(s != os, "{what}: == with one flipped bit");
            }
            Op::IsSub(o) => {
                if o.len() > MAX { continue }
                let os = mk(o);
                let want_so = m.len() <= o.len() && o[..m.len()] == m[..];
                let want_os = o.len() <= m.len() && m[..o.len()] == o[..];
                ensure!(valid(&what, || s.is_sub(&os))? == want_so, "{what}: self.is_sub(other) != model {want_so}");
                ensure!(valid(&what, || os.is_sub(&s))? == want_os, "{what}: other.is_sub(self) != model {want_os}");
            }
            Op::IsSubOfExtension(o) => {
                if m.len() + o.len() > MAX { continue }
                let mut e = m.clone(); e.extend(o.iter().cloned());
                let es = mk(&e);
                ensure!(valid(&what, || s.is_sub(&es))?, "{what}: a prefix must be is_sub of its extension");
                ensure!(valid(&what, || es.is_sub(&s))? == o.is_empty(), "{what}: extension.is_sub(prefix)");
                if !m.is_empty() {
                    let mut e2 = e.clone(); e2[m.len() - 1] = !e2[m.len() - 1];
                    ensure!(!s.is_sub(&mk(&e2)), "{what}: is_sub true although last bit differs");
                }
            }
            Op::PrefixIsSub(i) => {
                let l = idx(*i, m.len() + 1);
                let p = valid(&what, || s.sub(l))?;
                same(&p, &m[..l], &format!("{what}: sub({l})"))?;
                ensure!(valid(&what, || p.is_sub(&s))?, "{what}: sub(l).is_sub(self) false");
            }
            Op::StrRoundTrip => {
                let st = s.to_string();
                match valid(&what, || BitSeq::from_str(&st))? {
                    Ok(t) => { ensure!(t == s, "{what}: from_str(to_string) != self"); same(&t, &m, &what)?; }
                    Err(e) => return bad(format!("{what}: from_str({st}) -> Err({e})")),
                }
                let rev = valid(&what, || BitSeq::new_rev(to_val(&m), m.len()))?;
                let mut r = m.clone(); r.reverse();
                same(&rev, &r, &format!("{what}: new_rev"))?;
                let fi = valid(&what, || BitSeq::from_iter(m.iter().cloned()))?;
                same(&fi, &m, &format!("{what}: from_iter"))?;
            }
            Op::Generate(k) => {
                let k = *k;
                if k > 16 { continue }
                let all: Vec<BitSeq> = valid(&what, || BitSeq::generate(k).collect())?;
                ensure!(all.len() == 1usize << k, "{what}: generate({k}) yields {} items", all.len());
                let mut vals: Vec<u64> = all.iter().map(|b| b.as_u64()).collect();
                ensure!(all.iter().all(|b| b.len() == k), "{what}: generate length");
                vals.sort(); vals.dedup();
                ensure!(vals.len() == 1usize << k && vals.last().map(|v| *v == (1u64 << k) - 1).unwrap_or(false), "{what}: generate({k}) not all distinct k-bit values");
            }
        }
        same(&s, &m, &format!("after {what}"))?;
        maxlen = maxlen.max(m.len());
    }
    pass = pass.nt(maxlen >= 63 && !c.ops.is_empty());
    let bucket = match maxlen { 0..=7 => "len:0-7", 8..=31 => "len:8-31", 32..=62 => "len:32-62", 63 => "len:63", _ => "len:64" };
    Ok(pass.label(bucket))
}

fn len_strategy() -> BoxedStrategy<usize> {
    prop_oneof![
        3 => Just(64usize), 2 => Just(63usize), 1 => Just(62usize), 1 => Just(33usize), 1 => Just(32usize),
        1 => Just(31usize), 1 => Just(1usize), 1 => Just(0usize), 6 => 0..=64usize,
    ].boxed()
}

fn bits_strategy() -> BoxedStrategy<Vec<bool>> {
    len_strategy().prop_flat_map(|n| prop_oneof![
        4 => prop::collection::vec(any::<bool>(), n),
        1 => Just(vec![true; n]),
        1 => Just(vec![false; n]),
    ]).boxed()
}

fn short_bits() -> BoxedStrategy<Vec<bool>> {
    prop_oneof![
        6 => prop::collection::vec(any::<bool>(), 0..4usize),
        1 => bits_strategy(),
    ].boxed()
}

fn init_strategy() -> BoxedStrategy<Init> {
    let too_long = prop::collection::vec(any::<bool>(), 65..70usize);
    prop_oneof![
        1 => Just(Init::Empty),
        1 => Just(Init::Default),
        8 => bits_strategy().prop_map(Init::New),
        4 => bits_strategy().prop_map(Init::NewRev),
        2 => len_strategy().prop_map(Init::Zeros),
        2 => len_strategy().prop_map(Init::Ones),
        4 => bits_strategy().prop_map(Init::FromIter),
        3 => bits_strategy().prop_map(Init::FromStr),
        1 => any::<[bool; 8]>().prop_map(Init::FromArr8),
        1 => any::<bool>().prop_map(Init::FromBit),
        1 => prop_oneof![
            too_long.clone().prop_map(Init::New), too_long.clone().prop_map(Init::NewRev),
            too_long.clone().prop_map(Init::FromIter), too_long.prop_map(Init::FromStr),
            (65..80usize).prop_map(Init::Zeros), (65..80usize).prop_map(Init::Ones)],
    ].boxed()
}

fn op_strategy(gen_max: usize) -> BoxedStrategy<Op> {
    let i = || prop_oneof![3 => any::<u16>(), 1 => Just(0u16), 2 => Just(u16::MAX)];
    prop_oneof![
        3 => any::<bool>().prop_map(Op::Push),
        1 => Just(Op::Push0),
        1 => Just(Op::Push1),
        2 => short_bits().prop_map(Op::Append),
        1 => short_bits().prop_map(Op::AddAssign),
        1 => short_bits().prop_map(Op::AddRef),
        3 => (i(), any::<bool>()).prop_map(|(a, b)| Op::Insert(a, b)),
        1 => i().prop_map(Op::Insert0),
        1 => i().prop_map(Op::Insert1),
        4 => i().prop_map(Op::Remove),
        2 => (i(), any::<bool>()).prop_map(|(a, b)| Op::Set(a, b)),
        1 => i().prop_map(Op::Set0),
        1 => i().prop_map(Op::Set1),
        1 => i().prop_map(Op::Sub),
        1 => Just(Op::SubFull),
        1 => (any::<bool>(), i()).prop_map(|(b, a)| Op::EditPushRemove(b, a)),
        2 => bits_strategy().prop_map(Op::Cmp),
        2 => i().prop_map(Op::CmpPerturb),
        1 => bits_strategy().prop_map(Op::IsSub),
        1 => short_bits().prop_map(Op::IsSubOfExtension),
        1 => i().prop_map(Op::PrefixIsSub),
        1 => Just(Op::StrRoundTrip),
        1 => (0..=gen_max).prop_map(Op::Generate),
    ].boxed()
}

impl Prop for C17 {
    type Case = Case;
    const ID: &'static str = "C17";
    fn rule() -> String {
        "case = (constructor, op list of 0..40 ops) interpreted on BitSeq and on a Vec<bool> model, compared after every step \
         (len, iter, index, weight, as_u64, to_string, ==, cmp); lengths biased to 0,1,31..33,62..64; ops that would exceed 64 must be rejected. \
         non-trivial = history with >= 1 op whose model length reaches >= 63; distinct = distinct JSON of the case".into()
    }
    fn assumptions() -> Vec<String> { vec![
        "rejection = panic or Err; out-of-range indices are not generated (the property promises rejection only for exceeding the maximum length)".into(),
        "new_rev is exercised only with val < 2^len".into() ] }
    fn strategy(tier: Tier) -> BoxedStrategy<Case> {
        let n = tier.pick(40usize, 80usize);
        let g = tier.pick(10usize, 14usize);
        (init_strategy(), prop::collection::vec(op_strategy(g), 0..n)).prop_map(|(init, ops)| Case { init, ops }).boxed()
    }
    fn cases(tier: Tier) -> u32 { tier.pick(300_000, 8_000_000) }
    fn shards(_: Tier) -> usize { 16 }
    fn run(case: &Case, _ctx: &Ctx) -> Outcome { to_outcome(run_case(case)) }
}
