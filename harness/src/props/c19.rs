//! C19 Involutive Khovanov complex is the mapping cone of 1 + tau and respects symmetry.

use num_bigint::BigInt;
use proptest::prelude::*;
use num_traits::Zero as _;
use serde::{Deserialize, Serialize};
use std::collections::{BTreeMap, HashMap};
use yui::poly::{Mono, Poly};
use yui::FF2;
use yui_homology::{ChainComplexTrait, GridTrait, SummandTrait};
use yui_kh::kh::KhComplex;
use yui_kh::khi::internal::v2::builder::SymTngBuilder;
use yui_kh::khi::{ssi_invariants, KhIComplex, KhIHomology};
use yui_link::InvLink;

use crate::engine::*;
use crate::ensure;
use crate::kit::cube::*;
use crate::kit::cube::Sym;
use crate::kit::diagram::*;
use crate::kit::local::{self, SpRows};
use crate::kit::pools::with_threads;

pub struct C19;

pub const NAMES: &[&str] = &["3_1", "4_1", "5_1", "5_2a", "5_2b", "6_1a", "6_1b", "6_2a", "6_2b", "6_3", "7_1", "7_2a", "7_2b", "7_3a", "7_3b", "7_4a", "7_4b", "7_5a", "7_5b", "7_6a", "7_6b", "7_7a", "7_7b"];

#[derive(Clone, Copy, Debug, Serialize, Deserialize, PartialEq)]
pub enum Mode { ConeF2, ConeF2Bigraded, ConeF2H, SymKh, Ssi }

#[derive(Clone, Debug, Serialize, Deserialize)]
pub struct Case { pub name: String, pub mirror: bool, pub reorder: Option<u32>, pub h: bool, pub t: bool, pub reduced: bool, pub mode: Mode, pub threads: u8,
    /// equivariant Reidemeister I moves (position among the labels as a 16-bit fraction, kind), applied in order
    #[serde(default)] pub kinks: Vec<(u16, u8)>,
    /// kinks that would take the diagram beyond this many crossings are skipped (cube of the cone: 2^n vertices)
    #[serde(default = "default_cap")] pub cap: u8,
    /// Some(knot name from the general table): the base diagram is K # rho(K) (Dg::sym_double: no crossing on the axis) instead of `name`
    #[serde(default)] pub double: Option<String> }
fn default_cap() -> u8 { 10 }


pub struct Loaded { pub l: InvLink, pub dg: Dg, pub rho: BTreeMap<usize, usize>, pub base: usize, pub kinks_on: usize, pub kinks_off: usize }

fn load(c: &Case) -> Result<Loaded, String> {
    let mut dg = match &c.double {
        Some(k) => pool_get(k).ok_or_else(|| format!("no pool entry {k}"))?.sym_double()?,
        None => { let base = InvLink::load(&c.name).map_err(|e| format!("{e}"))?;
            let pd: Vec<[usize; 4]> = base.link().data().iter().map(|x| *x.edges()).collect();
            Dg::from_pd(&pd) }
    };
    let n = dg.labels().len();
    let mut rho: BTreeMap<usize, usize> = dg.labels().into_iter().map(|e| (e, (n + 1 - e) % n + 1)).collect();
    let mut bp = 1usize;
    let (mut on, mut off) = (0, 0);
    for (pos, kind) in &c.kinks {
        let labels: Vec<usize> = dg.labels().into_iter().collect();
        let e = labels[(*pos as usize * labels.len()) >> 16];
        let onaxis = rho[&e] == e;
        if dg.n() + if onaxis { 1 } else { 2 } > c.cap as usize { continue }
        dg = dg.sym_kink(e, *kind, &mut rho, &mut bp)?;
        if onaxis { on += 1 } else { off += 1 }
    }
    if let Some(s) = c.reorder { dg = dg.reorder_seeded(s as u64); }
    let l = if c.kinks.is_empty() { InvLink::sinv_knot_from_code(dg.pd().unwrap()) } else { let r = rho.clone(); InvLink::new(dg.to_link(), move |e| r[&e], Some(bp)) };
    let (l, dg) = if c.mirror { (l.mirror(), dg.mirror_type()) } else { (l, dg) };
    Ok(Loaded { l, dg, rho, base: bp, kinks_on: on, kinks_off: off })
}

/// the oracle: cube of the diagram over F2 at (h,t), the involution on generators, and the cone differentials
struct Cone { cube: Cube, tau: BTreeMap<isize, Vec<usize>> }

fn build_cone(dg: &Dg, rho: &BTreeMap<usize, usize>, bp: usize, reduced: bool) -> Result<Cone, String> {
    let inv_e = |e: usize| rho[&e];
    let base = if reduced { Some(bp) } else { None };
    let cube = cube(dg, base, 0)?;
    // crossing involution
    let n = dg.n();
    let mut xmap = vec![usize::MAX; n];
    for a in 0..n {
        let mut target: Vec<usize> = dg.x[a].1.iter().map(|e| inv_e(*e)).collect(); target.sort();
        for b in 0..n { let mut eb: Vec<usize> = dg.x[b].1.to_vec(); eb.sort(); if eb == target { xmap[a] = b; } }
        if xmap[a] == usize::MAX { return Err(format!("crossing {a} has no image under the involution")) }
    }
    let index: HashMap<Gen, (isize, usize)> = cube.gens.iter().flat_map(|(i, v)| v.iter().enumerate().map(move |(k, g)| (g.0, (*i, k)))).collect();
    let mut tau: BTreeMap<isize, Vec<usize>> = BTreeMap::new();
    let circ: Vec<(usize, BTreeMap<usize, usize>)> = (0..(1u64 << n)).map(|s| dg.circles(s)).collect();
    for (i, v) in &cube.gens {
        let mut t = vec![usize::MAX; v.len()];
        for (k, ((s, l), _)) in v.iter().enumerate() {
            let mut s2 = 0u64; for a in 0..n { if (s >> a) & 1 == 1 { s2 |= 1 << xmap[a]; } }
            let (_, cm) = &circ[*s as usize]; let (_, cm2) = &circ[s2 as usize];
            let mut l2 = 0u64;
            for (lab, c) in cm { if (l >> c) & 1 == 1 { let c2 = cm2[&inv_e(*lab)]; l2 |= 1 << c2; } }
            let Some(&(i2, k2)) = index.get(&(s2, l2)) else { return Err("image of a generator under the involution is not a generator".into()) };
            if i2 != *i { return Err("involution changes the homological degree".into()) }
            t[k] = k2;
        }
        tau.insert(*i, t);
    }
    Ok(Cone { cube, tau })
}

fn mod2(rows: &SpRows) -> Vec<Vec<usize>> { rows.iter().map(|r| r.iter().filter(|(_, v)| v.bit(0)).map(|(c, _)| *c).collect()).collect() }

impl Cone {
    /// D_i : Cone^i = C^i + C^{i-1} -> Cone^{i+1} = C^{i+1} + C^i over F2 at (h,t); optionally restricted to q-degree q
    fn d(&self, i: isize, h: &BigInt, t: &BigInt, q: Option<isize>) -> (usize, SpRows) {
        let c = &self.cube;
        let sel = |deg: isize| -> Vec<usize> { c.gens.get(&deg).map(|v| (0..v.len()).filter(|k| q.map(|qq| v[*k].1 == qq).unwrap_or(true)).collect()).unwrap_or_default() };
        let (ci, cim, cip) = (sel(i), sel(i - 1), sel(i + 1));
        let pos = |v: &Vec<usize>| -> HashMap<usize, usize> { v.iter().enumerate().map(|(a, b)| (*b, a)).collect() };
        let (pi, pim, pip) = (pos(&ci), pos(&cim), pos(&cip));
        let ncols = ci.len() + cim.len();
        let mut rows: SpRows = vec![BTreeMap::new(); cip.len() + ci.len()];
        let one = BigInt::from(1);
        let flip = |rows: &mut SpRows, r: usize, cc: usize| { if rows[r].remove(&cc).is_none() { rows[r].insert(cc, one.clone()); } };
        let di = mod2(&c.matrix(i, h, t));
        for (r, cols) in di.iter().enumerate() { if let Some(rr) = pip.get(&r) { for cc in cols { if let Some(c2) = pi.get(cc) { flip(&mut rows, *rr, *c2); } } } }
        let dim = mod2(&c.matrix(i - 1, h, t));
        for (r, cols) in dim.iter().enumerate() { if let Some(rr) = pi.get(&r) { for cc in cols { if let Some(c2) = pim.get(cc) { flip(&mut rows, cip.len() + *rr, ci.len() + *c2); } } } }
        if let Some(tv) = self.tau.get(&i) { for (k, c2) in &pi { flip(&mut rows, cip.len() + *c2, *c2); if let Some(tk) = pi.get(&tv[*k]) { flip(&mut rows, cip.len() + *tk, *c2); } } }
        (ncols, rows)
    }
    /// the cone over F2[H]/(H^k) (t = 0) as an F2 matrix: every generator g is expanded into g, gH, .., gH^(k-1);
    /// rows as lists of columns (duplicates cancel in pairs)
    fn d_trunc(&self, i: isize, k: usize) -> (usize, Vec<Vec<usize>>) {
        let c = &self.cube;
        let (ni, nim, nip) = (c.rank(i), c.rank(i - 1), c.rank(i + 1));
        let ncols = (ni + nim) * k;
        let mut rows: Vec<Vec<usize>> = vec![vec![]; (nip + ni) * k];
        let mut put = |blk_r: usize, r: usize, blk_c: usize, cc: usize, sym: Sym| {
            for a in 0..k {
                let ar = match sym { Sym::One => a, Sym::H => a + 1, Sym::T => usize::MAX };
                if ar >= k { continue }
                rows[(blk_r + r) * k + ar].push((blk_c + cc) * k + a);
            }
        };
        if let Some(es) = c.d.get(&i) { for (r, cc, _, sym) in es { put(0, *r, 0, *cc, *sym); } }
        if let Some(es) = c.d.get(&(i - 1)) { for (r, cc, _, sym) in es { put(nip, *r, ni, *cc, *sym); } }
        if let Some(tv) = self.tau.get(&i) { for x in 0..ni { put(nip, x, 0, x, Sym::One); put(nip, tv[x], 0, x, Sym::One); } }
        (ncols, rows)
    }
    /// dim_F2 H^i(Cone (x) F2[H]/(H^k))
    fn dims_trunc(&self, k: usize) -> BTreeMap<isize, usize> {
        let degs = self.cube.degrees();
        let lo = *degs.first().unwrap(); let hi = *degs.last().unwrap() + 1;
        let mut rk: BTreeMap<isize, (usize, usize)> = BTreeMap::new();
        for i in lo..=hi { let (n, rows) = self.d_trunc(i, k); rk.insert(i, (n, local::rank_f2(&rows, n))); }
        (lo..=hi).map(|i| (i, rk[&i].0 - rk[&i].1 - rk.get(&(i - 1)).map(|x| x.1).unwrap_or(0))).filter(|x| x.1 > 0).collect()
    }
    /// tau d = d tau (self-check of the oracle)
    fn check_equivariance(&self, h: &BigInt, t: &BigInt) -> Result<(), String> {
        for i in self.cube.degrees() {
            let d = mod2(&self.cube.matrix(i, h, t));
            let (ti, tn) = (self.tau.get(&i).cloned().unwrap_or_default(), self.tau.get(&(i + 1)).cloned().unwrap_or_default());
            let mut set: std::collections::HashSet<(usize, usize)> = Default::default();
            for (r, cols) in d.iter().enumerate() { for c in cols { set.insert((r, *c)); } }
            for (r, c) in &set { if !set.contains(&(tn[*r], ti[*c])) { return Err(format!("tau d != d tau in degree {i}")) } }
        }
        Ok(())
    }
    fn dims(&self, h: &BigInt, t: &BigInt, q: Option<isize>) -> BTreeMap<isize, usize> {
        let degs = self.cube.degrees();
        let lo = *degs.first().unwrap(); let hi = *degs.last().unwrap() + 1;
        let mut rk: BTreeMap<isize, (usize, usize)> = BTreeMap::new();
        for i in lo..=hi { let t0 = std::time::Instant::now(); let (n, rows) = self.d(i, h, t, q); if std::env::var("YV_TIME").is_ok() { eprintln!("  d({i}) {:?} {}x{}", t0.elapsed(), rows.len(), n); } let sets: Vec<Vec<usize>> = rows.iter().map(|r| r.keys().cloned().collect()).collect(); rk.insert(i, (n, local::rank_f2(&sets, n))); }
        (lo..=hi).map(|i| (i, rk[&i].0 - rk[&i].1 - rk.get(&(i - 1)).map(|x| x.1).unwrap_or(0))).filter(|x| x.1 > 0).collect()
    }
}

fn run_case(c: &Case) -> Chk<Pass> {
    let ld = match guard(|| load(c)) { Ok(Ok(v)) => v, Ok(Err(e)) => return discard(format!("load: {e}")), Err(m) => return bad(format!("loading {:?} panicked: {m}", c)) };
    let (l, dg) = (ld.l.clone(), ld.dg.clone());
    let threads = [1usize, 2, 4, 16][c.threads as usize % 4];
    let reduced = c.reduced && !c.t;
    let what = format!("{:?} diagram={:?}", c, dg.x);
    let (hb, tb) = (BigInt::from(c.h as u8), BigInt::from(c.t as u8));
    macro_rules! lib { ($e:expr) => { match with_threads(threads, || guard(|| $e)) { Ok(v) => v, Err(m) => return bad(format!("{what}: library panicked: {m}")) } } }
    let t00 = std::time::Instant::now();
    let cone = build_cone(&dg, &ld.rho, ld.base, reduced).map_err(|e| Bad::Fail(format!("harness: {e} for {what}")))?;
    if std::env::var("YV_TIME").is_ok() { eprintln!("build_cone {:?} gens {}", t00.elapsed(), cone.cube.total_gens()); }
    let mut pass = Pass::new().label(format!("mode:{:?}", c.mode)).label_if(c.mirror, "mirror").label_if(c.reorder.is_some(), "reordered").label_if(reduced, "reduced")
        .label_if(ld.kinks_on > 0, "kink-on-axis").label_if(ld.kinks_off > 0, "kink-pair-off-axis").label(format!("crossings:{}", dg.n())).label_if(c.double.is_some(), "K#rho(K)-no-on-axis-crossing");
    let f2 = |b: bool| FF2::from(b as i64);
    let kinked = ld.kinks_on + ld.kinks_off > 0;
    match c.mode {
        Mode::ConeF2 | Mode::ConeF2Bigraded => {
            let (h, t) = if c.mode == Mode::ConeF2Bigraded { (false, false) } else { (c.h, c.t) };
            let (hb, tb) = (BigInt::from(h as u8), BigInt::from(t as u8));
            cone.check_equivariance(&hb, &tb).map_err(|e| Bad::Fail(format!("harness: {e} for {what}")))?;
            // d.d = 0 for the library complex, and its homology
            let t0 = std::time::Instant::now();
            let (dd_ok, lib_dims): (Result<(), String>, BTreeMap<isize, usize>) = lib!({
                let cx = KhIComplex::<FF2>::new(&l, &f2(h), &f2(t), reduced);
                let mut ok = Ok(());
                for i in cx.h_range() { let p = cx.d_matrix(i + 1) * cx.d_matrix(i); if !p.is_zero() { ok = Err(format!("d_{} d_{i} != 0", i + 1)); } }
                let hm = KhIHomology::from(&cx);
                (ok, hm.h_range().map(|i| (i, hm[i].rank())).filter(|x| x.1 > 0).collect())
            });
            if std::env::var("YV_TIME").is_ok() { eprintln!("library {:?}", t0.elapsed()); }
            if let Err(e) = dd_ok { return bad(format!("{what}: involutive complex is not a complex: {e}")) }
            let t0 = std::time::Instant::now();
            let want = cone.dims(&hb, &tb, None);
            if std::env::var("YV_TIME").is_ok() { eprintln!("cone.dims {:?}", t0.elapsed()); }
            ensure!(lib_dims == want, "{what}: involutive homology dimensions per degree {:?} differ from the cone of 1 + tau on the cube {:?}", lib_dims, want);
            if c.mode == Mode::ConeF2Bigraded {
                let lb: BTreeMap<(isize, isize), usize> = lib!({ let g = KhIHomology::<FF2>::new(&l, &f2(false), &f2(false), reduced).into_bigraded();
                    g.support().map(|idx| ((idx.0, idx.1), g[(idx.0, idx.1)].rank())).filter(|x| x.1 > 0).collect() });
                let mut wb: BTreeMap<(isize, isize), usize> = BTreeMap::new();
                for q in cone.cube.q_values() { for (i, d) in cone.dims(&hb, &tb, Some(q)) { wb.insert((i, q), d); } }
                ensure!(lb == wb, "{what}: bigraded involutive homology {:?} differs from the cone {:?}", lb, wb);
            }
            pass = pass.nt((h, t) != (false, false) || c.mirror || c.reorder.is_some() || kinked);
        }
        Mode::ConeF2H => {
            // over F2[H] (graded, so every torsion order is a power of H): with r_i = rank, e_j^(i) = exponents in degree i,
            // dim_F2 H^i(Cone (x) F2[H]/(H^k)) = k r_i + sum_j min(e_j^(i), k) + sum_j min(e_j^(i+1), k) for every k >= 1;
            // compared for k = 1 .. (largest reported exponent + 1), which determines the exponents; plus rank = dim at H = 1
            let tab: BTreeMap<isize, (usize, Vec<Option<usize>>)> = lib!({ let hm = KhIHomology::<Poly<'H', FF2>>::new(&l, &Poly::variable(), &Poly::zero(), reduced);
                hm.h_range().map(|i| (i, (hm[i].rank(), hm[i].tors().iter().map(|p| if p.iter().count() == 1 { p.iter().next().map(|(x, _)| x.deg() as usize) } else { None }).collect()))).collect() });
            for (i, (_, ts)) in &tab { ensure!(ts.iter().all(|e| matches!(e, Some(x) if *x >= 1)), "{what}: degree {i}: a torsion order over F2[H] is not a positive power of H (exponents read: {:?})", ts); }
            let exps: BTreeMap<isize, Vec<usize>> = tab.iter().map(|(i, (_, ts))| (*i, ts.iter().map(|e| e.unwrap()).collect())).collect();
            let emax = exps.values().flat_map(|v| v.iter().cloned()).max().unwrap_or(0);
            let d1 = cone.dims(&BigInt::from(1), &BigInt::from(0), None);
            let kmax = if cone.cube.total_gens() * (emax + 1) <= 80_000 { emax + 1 } else { 1 };
            let tmin = |i: isize, k: usize| -> usize { exps.get(&i).map(|v| v.iter().map(|e| (*e).min(k)).sum()).unwrap_or(0) };
            for k in 1..=kmax {
                let dk = if k == 1 { cone.dims(&BigInt::from(0), &BigInt::from(0), None) } else { cone.dims_trunc(k) };
                let degs: std::collections::BTreeSet<isize> = tab.keys().chain(d1.keys()).chain(dk.keys()).cloned().collect();
                for i in degs {
                    let r = tab.get(&i).map(|x| x.0).unwrap_or(0);
                    if k == 1 { ensure!(r == d1.get(&i).cloned().unwrap_or(0), "{what}: degree {i}: rank over F2[H] = {r}, dimension of the cone at H = 1 is {}", d1.get(&i).cloned().unwrap_or(0)); }
                    let want = dk.get(&i).cloned().unwrap_or(0);
                    let got = k * r + tmin(i, k) + tmin(i + 1, k);
                    ensure!(got == want, "{what}: degree {i}: rank {r}, H-torsion exponents {:?} (degree {i}) and {:?} (degree {}) predict dim H^{i}(. (x) F2[H]/H^{k}) = {got}, the cone of 1 + tau has {want}", exps.get(&i).cloned().unwrap_or_default(), exps.get(&(i + 1)).cloned().unwrap_or_default(), i + 1);
                }
            }
            pass = pass.nt(true).label_if(kmax > 1, "H-torsion-exponents-compared").label_if(emax >= 2, "H-torsion-exponent>=2");
        }
        Mode::SymKh => {
            // the symmetric construction without the involutive part is ordinary Khovanov homology
            let (a, b): (BTreeMap<isize, usize>, BTreeMap<isize, usize>) = lib!({
                let s = SymTngBuilder::<FF2>::build_kh_complex(&l, &f2(c.h), &f2(c.t), reduced).homology();
                let o = KhComplex::<FF2>::new(l.link(), &f2(c.h), &f2(c.t), reduced).homology();
                (s.h_range().map(|i| (i, s[i].rank())).filter(|x| x.1 > 0).collect(), o.h_range().map(|i| (i, o[i].rank())).filter(|x| x.1 > 0).collect()) });
            let dims = crate::kit::khref::total_field(&cone.cube, &hb, &tb, 2);
            let want: BTreeMap<isize, usize> = dims.into_iter().filter(|x| x.1 > 0).collect();
            ensure!(a == b, "{what}: symmetric build gives {:?}, ordinary Khovanov homology {:?}", a, b);
            ensure!(a == want, "{what}: symmetric build gives {:?}, the cube {:?}", a, want);
            pass = pass.nt(c.h || c.t || c.mirror || kinked);
        }
        Mode::Ssi => {
            let hh = Poly::<'H', FF2>::variable();
            let (s0, s1) = lib!(ssi_invariants(&l, &hh, reduced));
            ensure!(s0 <= s1 && (s1 - s0) % 2 == 0, "{what}: ssi = ({s0},{s1}) violates s0 <= s1, s0 = s1 mod 2");
            // crossing order independence: compare with the table order
            let c0 = Case { reorder: None, ..c.clone() };
            let l0 = load(&c0).map_err(Bad::Fail)?.l;
            let (t0, t1) = lib!(ssi_invariants(&l0, &hh, reduced));
            ensure!((s0, s1) == (t0, t1), "{what}: ssi = ({s0},{s1}) but ({t0},{t1}) with the crossings in table order");
            let lm = l.mirror();
            let (m0, m1) = lib!(ssi_invariants(&lm, &hh, reduced));
            ensure!((m0, m1) == (-s1, -s0), "{what}: ssi(mirror) = ({m0},{m1}), expected ({},{})", -s1, -s0);
            let (u0, u1) = lib!(ssi_invariants(&l, &hh, !reduced));
            ensure!(u0 <= u1 && (u1 - u0) % 2 == 0, "{what}: ssi ({}) = ({u0},{u1})", if reduced { "unreduced" } else { "reduced" });
            pass = pass.nt(c.reorder.is_some() || c.mirror || kinked);
        }
    }
    Ok(pass)
}

impl Prop for C19 {
    type Case = Case;
    const ID: &'static str = "C19";
    fn rule() -> String {
        "case = (one of the 23 built-in strongly invertible diagrams or (one in 10) the equivariant connected sum K # rho(K) of a table knot K with <= 5 crossings, a diagram with no crossing on the axis, optionally changed by up to 3 generated equivariant Reidemeister I moves (a kink on an on-axis edge, or a kink on an off-axis edge together with its image kink; explicit edge involution passed to InvLink::new; at most 10 crossings quick, 11 thorough), optionally mirrored, optionally with its crossings listed in a generated order (same symmetric numbering), (h,t) in F2^2 or h = H over F2[H], reduced (t = 0), threads, mode). \
         ConeF2 / ConeF2Bigraded: KhIComplex over F2 satisfies d.d = 0 and its homology dimensions per degree (per bidegree for h = t = 0) equal those of the harness's own cone d(Bx) = B dx + Q(x + tau x), d(Qx) = Q dx on its own cube, with tau induced by the edge involution (e -> (n+1-e) mod n + 1 on the table diagrams, extended over the kinks; tau d = d tau is checked in the oracle); \
         ConeF2H: over F2[H], every torsion order is a power of H, rank = cone dimension at H = 1, and for k = 1 .. (largest exponent + 1): k rank + sum min(e_j(i), k) + sum min(e_j(i+1), k) = dim_F2 of the homology of the cone over F2[H]/(H^k) (which determines the exponents; only k = 1 when the expanded cube exceeds 80 000 generators); \
         SymKh: SymTngBuilder::build_kh_complex homology == KhComplex of the underlying knot == the cube; \
         Ssi: ssi_invariants(H over F2[H]) independent of the crossing order, s0 <= s1, s0 = s1 mod 2, mirror gives (-s1,-s0). \
         non-trivial = (h,t) != (0,0), or mirrored, or reordered, or kinked (ConeF2H: always)".into()
    }
    fn assumptions() -> Vec<String> { vec!["new strongly invertible diagrams are obtained from the built-in table by equivariant Reidemeister I moves, reordering and mirroring only (no equivariant R2/R3); invariance of the ssi pair under the kinks is not asserted (the property does not state it); ".into()] }
    fn strategy(tier: Tier) -> BoxedStrategy<Case> {
        let cap: u8 = tier.pick(10, 11);
        let mode = prop_oneof![4 => Just(Mode::ConeF2), 2 => Just(Mode::ConeF2Bigraded), 2 => Just(Mode::ConeF2H), 2 => Just(Mode::SymKh), 2 => Just(Mode::Ssi)];
        let kinks = prop_oneof![2 => Just(vec![]), 3 => prop::collection::vec((any::<u16>(), 0u8..4), 1..=3)];
        let double = prop_oneof![9 => Just(None), 1 => prop::sample::select(vec!["3_1", "4_1", "5_1", "5_2"]).prop_map(|s| Some(s.to_string()))];
        (prop::sample::select(NAMES.to_vec()), any::<bool>(), prop::option::weighted(0.6, any::<u32>()), any::<bool>(), any::<bool>(), any::<bool>(), mode, any::<u8>(), kinks, double)
            .prop_map(move |(name, mirror, reorder, h, t, reduced, mode, threads, kinks, double)| Case { name: name.to_string(), mirror, reorder, h, t, reduced, mode, threads, kinks, cap, double }).boxed()
    }
    fn cases(tier: Tier) -> u32 { tier.pick(1_500, 10_000) }
    fn shards(tier: Tier) -> usize { tier.pick(8, 16) }
    fn replay_repeats() -> usize { 5 }
    fn run(case: &Case, _ctx: &Ctx) -> Outcome { to_outcome(run_case(case)) }
}
