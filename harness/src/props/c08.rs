//! C08 Chain reduction is a homotopy equivalence with correct transfer maps.

use num_bigint::BigInt;
use num_integer::Integer;
use num_traits::{One, Zero};
use proptest::prelude::*;
use serde::{Deserialize, Serialize};
use yui::poly::Poly;
use yui::{Ratio, FF, FF2};
use yui_homology::utils::ChainReducer;
use yui_homology::{ChainComplexTrait, GenericChainComplex};
use yui_matrix::sparse::pivot::{PivotCondition, PivotType};
use yui_matrix::sparse::{SpMat, SpVec};

use crate::engine::*;
use crate::ensure;
use crate::kit::local;
use crate::props::c11::{sched_strategy, with_schedule, Sched};
use crate::kit::refalg::*;
use crate::kit::refmat::*;
use crate::kit::sc::*;
use crate::props::c07::{plant, Deg};
use crate::props::c14::Val;

pub struct C08;

#[derive(Clone, Copy, Debug, Serialize, Deserialize, PartialEq)]
pub enum RTy { I64, Big, Q, F2, F3, PolyH }

#[derive(Clone, Debug, Serialize, Deserialize)]
pub enum Step { ReduceAll(bool), ReduceAt(u8, bool), Spec(u8, bool, u8), Convenience }

#[derive(Clone, Debug, Serialize, Deserialize)]
pub struct Case { pub rty: RTy, pub degs: Vec<Deg>, pub steps: Vec<Step>, pub vecs: Vec<(u8, Vec<(u8, i8)>)>, pub threads: u8, pub with_trans: bool, pub sched: Sched,
    /// instead of the planted complex: the two-term complex C_0 --d--> C_1 of one large sparse matrix from C11's generator
    /// (random, or conflict-rich for the parallel pivot search); `rty` agrees with its ring
    #[serde(default)] pub wide: Option<crate::props::c11::Case>,
    /// Some(mask): the reducer is assembled with ChainReducer::new + set_matrix(j, d_j, with_trans = bit j of mask), i.e.
    /// transfer maps are tracked in some degrees only (overrides `with_trans`)
    #[serde(default)] pub trans_mask: Option<u8> }

fn ty_of(r: RTy) -> Ty { match r { RTy::I64 => Ty::I64, RTy::Big => Ty::Big, RTy::Q => Ty::QI64, RTy::F2 => Ty::F2, RTy::F3 => Ty::FF3, RTy::PolyH => Ty::PQI64 } }

/// integer matrices that carry the homology of (d): Z: itself; Q: rows cleared of denominators; F_p: lifted residues (use with rank_mod p);
/// Z[H]: specialisations H -> h for three integers
fn int_forms(k: &RK, d: &RM, rty: RTy) -> Vec<Vec<Vec<BigInt>>> {
    match rty {
        RTy::I64 | RTy::Big => vec![d.a.iter().map(|r| r.iter().map(|x| match x { RV::Z(z) => z.clone(), _ => unreachable!() }).collect()).collect()],
        RTy::Q => vec![d.a.iter().map(|r| {
            let l = r.iter().fold(BigInt::one(), |l, x| match x { RV::Q(q) => l.lcm(q.denom()), _ => unreachable!() });
            r.iter().map(|x| match x { RV::Q(q) => q.numer() * (&l / q.denom()), _ => unreachable!() }).collect() }).collect()],
        RTy::F2 | RTy::F3 => vec![d.a.iter().map(|r| r.iter().map(|x| match x { RV::F(v) => BigInt::from(*v), _ => unreachable!() }).collect()).collect()],
        RTy::PolyH => [2i64, -3, 5].iter().map(|h| d.a.iter().map(|r| r.iter().map(|x| match x {
            RV::PQ(c) => c.iter().rev().fold(BigInt::zero(), |s, q| s * BigInt::from(*h) + q.numer()), _ => unreachable!() }).collect()).collect()).collect(),
    }
    .into_iter().map(|m: Vec<Vec<BigInt>>| { let _ = k; m }).collect()
}

/// homology fingerprint per degree: (free rank, positive valuations at 2,3,5) for each integer form
fn fingerprint(k: &RK, ds: &[RM], ranks: &[usize], rty: RTy) -> Vec<Vec<(usize, Vec<Vec<u32>>)>> {
    let l = ranks.len();
    let nforms = int_forms(k, &ds[0], rty).len();
    (0..nforms).map(|f| {
        let infos: Vec<(usize, Vec<Vec<u32>>)> = ds.iter().map(|d| {
            let m = &int_forms(k, d, rty)[f];
            match rty {
                RTy::F2 => (local::rank_mod(m, 2), vec![]),
                RTy::F3 => (local::rank_mod(m, 3), vec![]),
                RTy::Q => (local::rank_q(m), vec![]),
                _ => { let r = local::rank_q(m); (r, [2u64, 3, 5].iter().map(|p| local::local_smith(m, *p).0.into_iter().filter(|v| *v > 0).collect()).collect()) }
            }
        }).collect();
        (0..l).map(|i| {
            let r_in = if i == 0 { 0 } else { infos[i - 1].0 };
            let free = ranks[i] as isize - r_in as isize - infos[i].0 as isize;
            (free.max(-1) as usize, if i == 0 { vec![] } else { infos[i - 1].1.clone() })
        }).collect()
    }).collect()
}

fn run_ty<R>(c: &Case, tier: Tier) -> Chk<Pass> where R: Sc + yui::Ring, for<'x> &'x R: yui::RingOps<R> {
    let k = ty_of(c.rty).rk();
    let k = if c.rty == RTy::PolyH { RK::PQ } else { k };
    let maxb = tier.pick(4usize, 7usize);
    let p = match &c.wide {
        None => plant(k, Some(20), &c.degs, maxb),
        Some(w) => {
            if matches!(w.shape, crate::props::c11::Shape::Huge { .. } | crate::props::c11::Shape::Chain { .. }) { return discard("huge-shape-is-for-C11-only") }
            let (m, n, e) = crate::props::c11::build_entries(w, Tier::Quick); let _ = tier;
            if m == 0 || n == 0 { return discard("empty-wide-matrix") }
            let mut d = RM::zero(k, m, n);
            for ((i, j), v) in &e { d.a[*i][*j] = v.to_rv(); }
            crate::props::c07::Planted { k, ranks: vec![n, m], d: vec![d, RM::zero(k, 0, m)], free: vec![], tors: vec![], tors_count: vec![] }
        }
    };
    let l = p.ranks.len();
    let mut sps: Vec<SpMat<R>> = vec![];
    for d in &p.d { let Some(s) = rm_to_sp::<R>(d) else { return discard("unrepresentable-operand") }; sps.push(s); }
    let what = format!("[{:?}] ranks {:?}, d = {:?}, steps {:?}, threads {}", c.rty, p.ranks, p.d.iter().map(|d| d.show()).collect::<Vec<_>>(), c.steps, c.threads);
    let what = if what.len() > 2500 { format!("{}...", &what[..2500]) } else { what };
    let threads = [1usize, 2, 4, 8, 16][c.threads as usize % 5];
    let sp2 = sps.clone();
    let cx = GenericChainComplex::<R>::generate(0..=(l as isize - 1), 1, move |i| sp2[i as usize].clone());

    // tracked vectors
    let mut vmods: Vec<(usize, RM)> = vec![];
    for (deg, ents) in &c.vecs {
        let i = *deg as usize % l; let n = p.ranks[i];
        let mut v = RM::zero(k, n, 1);
        if n > 0 { for (pos, x) in ents { let r = *pos as usize % n; v.a[r][0] = k.add(&v.a[r][0], &k.from_i64(*x as i64)); } }
        vmods.push((i, v));
    }

    let (res, retries, _commits) = with_schedule(threads, c.sched, || guard(|| {
        if c.steps.iter().any(|s| matches!(s, Step::Convenience)) && vmods.is_empty() && c.trans_mask.is_none() {
            return ChainReducer::reduce(&cx, c.with_trans);
        }
        let mut r = match c.trans_mask {
            None => ChainReducer::from(&cx, c.with_trans),
            Some(mask) => { let mut r = ChainReducer::new(0..=(l as isize - 1), 1);
                for j in 0..=(l as isize) { if !r.is_set(j) { r.set_matrix(j, cx.d_matrix(j), (mask >> (j as u32 % 8)) & 1 == 1); } }
                r }
        };
        for (i, v) in &vmods { let sv: SpVec<R> = rm_to_spvec(v).unwrap(); r.add_vec(*i as isize, sv); }
        for s in &c.steps {
            match s {
                Step::ReduceAll(deep) => r.reduce_all(*deep),
                Step::ReduceAt(i, deep) => r.reduce_at(*i as isize % l as isize, *deep),
                Step::Spec(i, cols, cond) => { let i = *i as isize % l as isize;
                    if r.matrix(i).is_some() {
                        let pc = match cond % 4 { 0 => PivotCondition::One, 1 => PivotCondition::AnyUnit, 2 => PivotCondition::Weight(2.0), _ => PivotCondition::Weight(1.0) };
                        r.reduce_at_spec(i, if *cols { PivotType::Cols } else { PivotType::Rows }, pc);
                    } }
                Step::Convenience => { r.reduce_all(false); r.reduce_all(true); }
            }
        }
        r
    }));
    let r = match res { Ok(r) => r, Err(m) => return if R::machine() && is_arith_overflow(&m) { discard("machine-overflow") } else { bad(format!("{what}: reduction panicked: {m}")) } };

    // read back
    let mut dred: Vec<RM> = vec![]; let mut f: Vec<Option<RM>> = vec![]; let mut b: Vec<Option<RM>> = vec![];
    for i in 0..l {
        let Some(m) = r.matrix(i as isize) else { return bad(format!("{what}: no matrix at degree {i}")) };
        dred.push(match sp_to_rm(m) { Ok(m) => m, Err(e) => return bad(format!("{what}: {e}")) });
        match r.trans(i as isize) {
            Some(t) => { f.push(Some(sp_to_rm(&t.forward_mat()).map_err(|e| Bad::Fail(e))?)); b.push(Some(sp_to_rm(&t.backward_mat()).map_err(|e| Bad::Fail(e))?)); }
            None => { f.push(None); b.push(None); }
        }
        let want_trans = match c.trans_mask { None => c.with_trans, Some(mask) => (mask >> (i as u32 % 8)) & 1 == 1 };
        ensure!(want_trans == r.trans(i as isize).is_some(), "{what}: transfer map presence at degree {i}");
    }
    let nred: Vec<usize> = dred.iter().map(|d| d.n).collect();
    for i in 0..l {
        let w = format!("{what}: degree {i}");
        let m_expect = if i + 1 < l { nred[i + 1] } else { 0 };
        ensure!(dred[i].m == m_expect, "{w}: reduced differential has {} rows, but the reduced C_{} has rank {}", dred[i].m, i + 1, m_expect);
        ensure!(r.rank(i as isize) == Some(nred[i]), "{w}: rank()");
        if i + 1 < l { ensure!(dred[i + 1].mul(&dred[i]).is_zero(), "{w}: reduced d.d != 0: d'_{} d'_{} = {}", i + 1, i, dred[i + 1].mul(&dred[i]).show()); }
        if let (Some(fi), Some(bi_)) = (&f[i], &b[i]) {
            ensure!(fi.shape() == (nred[i], p.ranks[i]) && bi_.shape() == (p.ranks[i], nred[i]), "{w}: transfer map shapes {:?} {:?}", fi.shape(), bi_.shape());
            ensure!(fi.mul(bi_).is_id(), "{w}: F B != I on the reduced complex: F B = {}", fi.mul(bi_).show());
            if let (true, Some(fn_), Some(bn)) = (i + 1 < l, f.get(i + 1).and_then(|x| x.as_ref()), b.get(i + 1).and_then(|x| x.as_ref())) {
                ensure!(fn_.mul(&p.d[i]) == dred[i].mul(fi), "{w}: F is not a chain map: F_{} d_{i} = {} but d'_{i} F_{i} = {}", i + 1, fn_.mul(&p.d[i]).show(), dred[i].mul(fi).show());
                ensure!(p.d[i].mul(bi_) == bn.mul(&dred[i]), "{w}: B is not a chain map: d_{i} B_{i} = {} but B_{} d'_{i} = {}", p.d[i].mul(bi_).show(), i + 1, bn.mul(&dred[i]).show());
            }
            // tracked vectors
        }
    }
    let mut seen: std::collections::HashMap<usize, usize> = Default::default();
    for (i, v) in &vmods {
        let idx = { let e = seen.entry(*i).or_insert(0); let t = *e; *e += 1; t };
        let Some(vs) = r.vecs(*i as isize) else { return bad(format!("{what}: tracked vectors at degree {i} lost")) };
        let got = spvec_to_rm(&vs[idx]).map_err(Bad::Fail)?;
        if let Some(fi) = &f[*i] { ensure!(got == fi.mul(v), "{what}: tracked vector #{idx} at degree {i} is {} but F v = {}", got.show(), fi.mul(v).show()); }
        ensure!(got.m == nred[*i], "{what}: tracked vector dimension");
    }
    // same homology (own elimination)
    let before = fingerprint(&k, &p.d, &p.ranks, c.rty);
    let after = fingerprint(&k, &dred, &nred, c.rty);
    ensure!(before == after, "{what}: homology changed by the reduction: (free rank, valuations at 2,3,5) per degree before {:?}, after {:?}; reduced d = {:?}", before, after, dred.iter().map(|d| d.show()).collect::<Vec<_>>());

    // ChainComplexBase::reduced(), applied twice: the second reduction starts from summands that already carry transfer maps
    {
        let rr = with_schedule(threads, c.sched, || guard(|| {
            let r1 = cx.reduced();
            let d1: Vec<SpMat<R>> = (0..l).map(|i| r1.d_matrix(i as isize)).collect();
            let r2 = r1.reduced();
            let d2: Vec<SpMat<R>> = (0..l).map(|i| r2.d_matrix(i as isize)).collect();
            (d1, d2)
        })).0;
        let (d1, d2) = match rr { Ok(v) => v, Err(m) => return if R::machine() && is_arith_overflow(&m) { discard("machine-overflow") } else { bad(format!("{what}: reduced() / reduced().reduced() panicked: {m}")) } };
        for (name, ds) in [("reduced()", d1), ("reduced().reduced()", d2)] {
            let rms: Vec<RM> = ds.iter().map(|d| sp_to_rm(d).map_err(Bad::Fail)).collect::<Chk<Vec<_>>>()?;
            let ns: Vec<usize> = rms.iter().map(|d| d.n).collect();
            for i in 0..l.saturating_sub(1) { ensure!(rms[i].m == ns[i + 1], "{what}: {name}: shapes inconsistent at degree {i}"); ensure!(rms[i + 1].mul(&rms[i]).is_zero(), "{what}: {name}: d.d != 0 at degree {i}"); }
            let fp = fingerprint(&k, &rms, &ns, c.rty);
            ensure!(fp == before, "{what}: {name} changes the homology: fingerprint {:?}, original {:?}; differentials {:?}", fp, before, rms.iter().map(|d| d.show()).collect::<Vec<_>>());
        }
    }
    let reduced_any = (0..l).any(|i| nred[i] < p.ranks[i]);
    Ok(Pass::new().nt(reduced_any && l >= 2).label(format!("ring:{:?}", c.rty)).label(format!("threads:{threads}")).label_if(reduced_any, "pivots-found")
        .label_if(!vmods.is_empty(), "tracked-vectors").label_if(!c.with_trans, "without-trans").label_if(dred.iter().all(|d| d.is_zero()), "fully-reduced").label_if(retries > 0, "pivot-retry>=1").label_if(c.wide.is_some(), "wide-two-term-complex").label_if(c.trans_mask.is_some(), "transfer-maps-in-some-degrees-only").label(format!("sched:{}", match c.sched { Sched::Free => "free", Sched::Barrier(_) => "barrier", Sched::Delay(..) => "delay", Sched::Stagger => "stagger" })))
}

fn run_case(c: &Case, tier: Tier) -> Chk<Pass> {
    match guard(|| match c.rty {
        RTy::I64 => run_ty::<i64>(c, tier), RTy::Big => run_ty::<BigInt>(c, tier), RTy::Q => run_ty::<Ratio<i64>>(c, tier),
        RTy::F2 => run_ty::<FF2>(c, tier), RTy::F3 => run_ty::<FF<3>>(c, tier), RTy::PolyH => run_ty::<Poly<'H', i64>>(c, tier) }) {
        Ok(r) => r,
        Err(m) => if is_arith_overflow(&m) && matches!(c.rty, RTy::I64 | RTy::Q | RTy::PolyH) { discard("machine-overflow") } else { bad(format!("panicked: {m}")) },
    }
}

fn factor(rty: RTy) -> BoxedStrategy<Val> {
    match rty {
        RTy::PolyH => prop_oneof![6 => Just(Val::One), 2 => Just(Val::MinusOne), 1 => Just(Val::Small(2)), 2 => Just(Val::Poly(vec![Val::Zero, Val::One])), 1 => Just(Val::Poly(vec![Val::One, Val::One])), 1 => Just(Val::Poly(vec![Val::Small(2), Val::Zero, Val::One]))].boxed(),
        RTy::Q => prop_oneof![4 => Just(Val::One), 2 => Just(Val::MinusOne), 2 => Just(Val::Small(2)), 1 => Just(Val::Frac(Box::new(Val::One), Box::new(Val::Small(2)))), 1 => Just(Val::Small(-3))].boxed(),
        _ => prop_oneof![6 => Just(Val::One), 3 => Just(Val::MinusOne), 2 => Just(Val::Small(2)), 1 => Just(Val::Small(3)), 1 => Just(Val::Small(4)), 1 => Just(Val::Small(6))].boxed(),
    }
}

impl Prop for C08 {
    type Case = Case;
    const ID: &'static str = "C08";
    fn rule() -> String {
        "case = (ring in {i64, BigInt, Ratio<i64>, F2, F3, Z[H] = Poly<'H',i64>}, complex of length 1..6 built by construction (planted ranks, factors from units and non-units so reduction is partial, sparse unimodular changes of basis) or, in one case of five, the two-term complex of one large sparse matrix from C11's generator (random or conflict-rich for the parallel pivot search, up to 60 x 60), a script of reduction steps (reduce_all(shallow/deep), reduce_at(i, deep), reduce_at_spec(i, Rows|Cols, One|AnyUnit|Weight), ChainReducer::reduce), tracked vectors added before the script, thread count in {1,2,4,8,16}, with/without transfer maps or (one planted case in five) with transfer maps tracked in a generated subset of the degrees through ChainReducer::new + set_matrix). \
         after the script, with reference products on the extracted matrices: shapes consistent, d'd' = 0, F_i+1 d_i = d'_i F_i, d_i B_i = B_i+1 d'_i, F_i B_i = I, tracked vector k at degree i equals F_i v_k, and the homology fingerprint (free rank per degree and, for Z and Z[H] specialised at H = 2,-3,5, the positive valuations at 2,3,5 of the incoming differential) computed by the harness's own elimination is unchanged; the reduction runs under a hook-controlled schedule strategy (Free / Barrier / Delay / Stagger, as in C11). \
         non-trivial = at least one step removed a pivot and the complex has length >= 2".into()
    }
    fn assumptions() -> Vec<String> { vec!["thread schedules sampled by pool size; the intermediate matrices may differ between schedules, only the equations are asserted".into()] }
    fn strategy(tier: Tier) -> BoxedStrategy<Case> {
        let nd = tier.pick(5usize, 7usize);
        let step0 = prop_oneof![3 => any::<bool>().prop_map(Step::ReduceAll), 3 => (any::<u8>(), any::<bool>()).prop_map(|(i, d)| Step::ReduceAt(i, d)),
            5 => (any::<u8>(), any::<bool>(), 0u8..4).prop_map(|(i, c, k)| Step::Spec(i, c, k)), 1 => Just(Step::Convenience)];
        let vecs0 = prop::collection::vec((any::<u8>(), prop::collection::vec((any::<u8>(), -2i8..=2), 0..5)), 0..3);
        let wide = (<crate::props::c11::C11 as Prop>::strategy(tier), prop::collection::vec(step0, 1..4), vecs0, prop_oneof![5 => Just(true), 1 => Just(false)])
            .prop_map(|(w, steps, vecs, with_trans)| {
                use crate::props::c11::RTy as W;
                let rty = match w.rty { W::I64 => RTy::I64, W::Q => RTy::Q, W::F3 => RTy::F3, W::PolyH => RTy::PolyH };
                Case { rty, degs: vec![], steps, vecs, threads: w.threads, with_trans, sched: w.sched, wide: Some(w), trans_mask: None } });
        let planted = prop::sample::select(vec![RTy::I64, RTy::Big, RTy::Q, RTy::F2, RTy::F3, RTy::PolyH]).prop_flat_map(move |rty| {
            let deg = (0u8..8, 0u8..8, prop::collection::vec(factor(rty), 0..8), Just(false), prop::collection::vec((0u8..2, any::<u8>(), any::<u8>(), -1i8..=1), 0..6))
                .prop_map(|(b, c, factors, chain, ops)| Deg { b, c, factors, chain, ops });
            let step = prop_oneof![3 => any::<bool>().prop_map(Step::ReduceAll), 3 => (any::<u8>(), any::<bool>()).prop_map(|(i, d)| Step::ReduceAt(i, d)),
                5 => (any::<u8>(), any::<bool>(), 0u8..4).prop_map(|(i, c, k)| Step::Spec(i, c, k)), 1 => Just(Step::Convenience)];
            let vecs = prop::collection::vec((any::<u8>(), prop::collection::vec((any::<u8>(), -2i8..=2), 0..5)), 0..4);
            (Just(rty), prop::collection::vec(deg, 1..=nd + 1), prop::collection::vec(step, 1..6), vecs, any::<u8>(), prop_oneof![5 => Just(true), 1 => Just(false)], sched_strategy())
                .prop_flat_map(|t| (Just(t), prop::option::weighted(0.2, any::<u8>())))
                .prop_map(|((rty, degs, steps, vecs, threads, with_trans, sched), trans_mask)| Case { rty, degs, steps, vecs, threads, with_trans, sched, wide: None, trans_mask })
        });
        prop_oneof![4 => planted, 1 => wide].boxed()
    }
    fn cases(tier: Tier) -> u32 { tier.pick(12_000, 300_000) }
    fn shards(tier: Tier) -> usize { tier.pick(8, 16) }
    fn replay_repeats() -> usize { 30 }
    fn run(case: &Case, ctx: &Ctx) -> Outcome { to_outcome(run_case(case, ctx.tier)) }
}
