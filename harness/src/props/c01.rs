//! C01 Khovanov homology equals the cube-of-resolutions definition.

use num_bigint::BigInt;
use num_traits::{ToPrimitive, Zero};
use proptest::prelude::*;
use serde::{Deserialize, Serialize};
use std::collections::{BTreeMap, BTreeSet};
use yui::{Ratio, FF, FF2};
use yui_homology::{ChainComplexTrait, GridTrait, SummandTrait};
use yui_kh::kh::{KhComplex, KhComplexBigraded, KhHomology};

use crate::engine::*;
use crate::ensure;
use crate::kit::cube::*;
use crate::kit::dgen::*;
use crate::kit::diagram::*;
use crate::kit::khref::*;
use crate::kit::local::{self, SpRows};
use crate::kit::pools::with_threads;

pub struct C01;

#[derive(Clone, Copy, Debug, Serialize, Deserialize, PartialEq)]
pub enum KRing { ZBig, Zi64, Q, F2, F2c, F3 }

#[derive(Clone, Copy, Debug, Serialize, Deserialize, PartialEq)]
pub enum Route { Total, Bigraded, DMatrix,
    /// the complex composed from two separately built tangle complexes (crossings split at the given position), each with the degree shift of its own crossings
    Compose(u16) }

#[derive(Clone, Debug, Serialize, Deserialize)]
pub struct Case { pub d: DSpec, pub ring: KRing, pub h: i8, pub t: i8, pub reduced: bool, pub threads: u8, pub route: Route }

pub fn cross_cap(tier: Tier, bigraded: bool) -> usize { match (tier, bigraded) { (Tier::Quick, false) => 8, (Tier::Quick, true) => 9, (Tier::Thorough, false) => 10, (Tier::Thorough, true) => 12 } }

pub type LibTot = BTreeMap<isize, (usize, Vec<BigInt>)>;
pub type LibBi = BTreeMap<(isize, isize), (usize, Vec<BigInt>)>;

fn big_of<R: crate::kit::sc::Sc>(x: &R) -> BigInt { match x.to_rv() { crate::kit::refalg::RV::Z(z) => z, crate::kit::refalg::RV::F(v) => BigInt::from(v), crate::kit::refalg::RV::Q(q) => q.numer().clone(), _ => BigInt::zero() } }

pub fn lib_total<R>(l: &yui_link::Link, h: &R, t: &R, red: bool) -> LibTot where R: yui::EucRing + crate::kit::sc::Sc, for<'x> &'x R: yui::EucRingOps<R> {
    let kh = KhHomology::<R>::new(l, h, t, red);
    kh.h_range().map(|i| (i, (kh[i].rank(), kh[i].tors().iter().map(big_of).collect()))).filter(|(_, v): &(isize, (usize, Vec<BigInt>))| v.0 > 0 || !v.1.is_empty()).collect()
}

pub fn lib_bigraded_b<R>(l: &yui_link::Link, red: bool) -> LibBi where R: yui::EucRing + crate::kit::sc::Sc, for<'x> &'x R: yui::EucRingOps<R> {
    let kh = KhComplexBigraded::<R>::new(l, &R::zero(), &R::zero(), red).homology();
    kh.support().map(|idx| ((idx.0, idx.1), (kh[(idx.0, idx.1)].rank(), kh[(idx.0, idx.1)].tors().iter().map(big_of).collect::<Vec<_>>()))).filter(|(_, v)| v.0 > 0 || !v.1.is_empty()).collect()
}

/// differentials of the library complex as integer sparse rows, with the q-degrees of the generators
pub fn lib_dmatrices(l: &yui_link::Link, h: &BigInt, t: &BigInt, red: bool) -> (BTreeMap<isize, (usize, SpRows)>, BTreeMap<isize, Vec<isize>>) {
    let c = KhComplex::<BigInt>::new(l, h, t, red);
    let mut out = BTreeMap::new(); let mut qs = BTreeMap::new();
    for i in c.h_range() {
        let d = c.d_matrix(i);
        let n = c[i].rank();
        let m = c[i + 1].rank();
        let mut rows: SpRows = vec![BTreeMap::new(); m];
        for (r, cc, v) in d.iter() { if !v.is_zero() { let e = rows[r].entry(cc).or_insert_with(BigInt::zero); *e += v; } }
        out.insert(i, (n, rows));
        qs.insert(i, c[i].raw_gens().iter().map(|g| g.q_deg()).collect());
    }
    (out, qs)
}

fn primes_for(tier: Tier, tors: impl Iterator<Item = BigInt>) -> Vec<u64> {
    let mut p: BTreeSet<u64> = tier.pick(&[2u64, 3, 5, 7][..], &local::SMALL_PRIMES[..]).iter().cloned().collect();
    for t in tors { for f in local::prime_factors_small(&t, 1000) { p.insert(f); } }
    p.into_iter().collect()
}

fn run_case(c: &Case, tier: Tier) -> Chk<Pass> {
    let dg = match build(&c.d) { Ok(d) => d, Err(e) => return discard(format!("diagram-build: {e}")) };
    if dg.orient(0).is_err() { return discard("diagram-invalid") }
    let bigr = c.route == Route::Bigraded;
    let (h, t) = if bigr { (0i8, 0i8) } else { (c.h, c.t) };
    let reduced = c.reduced && t == 0 && !dg.x.is_empty();
    // field parameters are taken mod p
    let (h, t) = match c.ring { KRing::F2 | KRing::F2c => (h.rem_euclid(2), t.rem_euclid(2)), KRing::F3 => (h.rem_euclid(3), t.rem_euclid(3)), _ => (h, t) };
    let reduced = reduced && t == 0;
    if dg.ncross() > cross_cap(tier, bigr) { return discard("oracle-size-cap") }
    if cube_size(&dg, reduced) > SIZE_CAP { return discard("oracle-size-cap") }
    let base = if reduced { dg.x.first().map(|x| *x.1.iter().min().unwrap()) } else { None };
    let cube = match cube(&dg, base, 0) { Ok(c) => c, Err(e) => return bad(format!("harness: cube construction failed: {e} for {:?}", dg)) };
    let link = dg.to_link();
    let threads = [1usize, 2, 4, 16][c.threads as usize % 4];
    let what = format!("{:?} ring={:?} (h,t)=({h},{t}) reduced={reduced} route={:?} threads={threads} diagram={:?}", c.d, c.ring, c.route, dg.x);
    let what = if what.len() > 1200 { format!("{}...", &what[..1200]) } else { what };
    let (hb, tb) = (BigInt::from(h), BigInt::from(t));
    let mut has_tors = false;

    macro_rules! lib { ($e:expr) => { match with_threads(threads, || guard(|| $e)) { Ok(v) => v, Err(m) => {
        if matches!(c.ring, KRing::Zi64 | KRing::Q) && is_arith_overflow(&m) { return discard("machine-overflow") } return bad(format!("{what}: library panicked: {m}")) } } } }

    match (c.route, c.ring) {
        (Route::Compose(split), _) => {
            use yui_kh::kh::internal::v2::{builder::TngComplexBuilder, tng_complex::TngComplex};
            if dg.ncross() > tier.pick(6, 7) || dg.nfree() > 0 || dg.x.is_empty() { return discard("compose-route-size-cap") }
            let o = dg.orient(0).map_err(Bad::Fail)?;
            let n = dg.n();
            let cut = (split as usize * (n + 1)) >> 16;
            let shift_of = |r: std::ops::Range<usize>| -> (isize, isize) { let (mut p, mut m) = (0isize, 0isize); for i in r { match o.signs[i] { Some(1) => p += 1, Some(-1) => m += 1, _ => {} } } (-m, p - 2 * m) };
            let (sa, sb) = (shift_of(0..cut), shift_of(cut..n));
            let sa = if reduced { (sa.0, sa.1 + 1) } else { sa };
            let base_pt = if reduced { link.first_edge() } else { None };
            let xs: Vec<yui_link::Crossing> = link.data().clone();
            let (lt, lb): (LibTot, Option<LibBi>) = lib!({
                let mut a = TngComplex::<BigInt>::init(&hb, &tb, sa, base_pt);
                for x in &xs[..cut] { a.append(x); }
                let mut b = TngComplex::<BigInt>::init(&hb, &tb, sb, None);
                for x in &xs[cut..] { b.append(x); }
                a.connect(b);
                let mut bl = TngComplexBuilder::from(a);
                bl.deloop_all(false); bl.eliminate_all(); bl.finalize();
                let kh = bl.into_kh_complex().homology();
                let tot: LibTot = kh.h_range().map(|i| (i, (kh[i].rank(), kh[i].tors().iter().map(big_of).collect()))).filter(|(_, v): &(isize, (usize, Vec<BigInt>))| v.0 > 0 || !v.1.is_empty()).collect();
                let bi: Option<LibBi> = if (h, t) == (0, 0) { let g = kh.into_bigraded();
                    Some(g.support().map(|idx| ((idx.0, idx.1), (g[(idx.0, idx.1)].rank(), g[(idx.0, idx.1)].tors().iter().map(big_of).collect::<Vec<_>>()))).filter(|(_, v)| v.0 > 0 || !v.1.is_empty()).collect()) } else { None };
                (tot, bi)
            });
            let primes = primes_for(tier, lt.values().flat_map(|v| v.1.iter().cloned()));
            let refh = total_z(&cube, &hb, &tb, &primes).map_err(|e| Bad::Discard(e))?;
            let degs: BTreeSet<isize> = lt.keys().cloned().chain(refh.keys().cloned()).collect();
            for i in degs {
                let (lr, ltor) = lt.get(&i).cloned().unwrap_or((0, vec![]));
                let rf = refh.get(&i).cloned().unwrap_or_default();
                if !ltor.is_empty() { has_tors = true; }
                if let Err(e) = same_group(lr, &ltor, &rf, &primes) { return bad(format!("{what}: composed at {cut} of {n} crossings (shifts {:?} + {:?}): degree {i}: {e}", sa, sb)) }
            }
            if let Some(lb) = lb {
                let refb = bigraded_z(&cube, &primes).map_err(|e| Bad::Discard(e))?;
                let keys: BTreeSet<(isize, isize)> = lb.keys().cloned().chain(refb.keys().cloned()).collect();
                for k in keys {
                    let (lr, ltor) = lb.get(&k).cloned().unwrap_or((0, vec![]));
                    let rf = refb.get(&k).cloned().unwrap_or_default();
                    if let Err(e) = same_group(lr, &ltor, &rf, &primes) { return bad(format!("{what}: composed at {cut} of {n} crossings (shifts {:?} + {:?}): bidegree {:?}: {e}", sa, sb, k)) }
                }
            }
        }
        (Route::DMatrix, _) => {
            let (dm, qs) = lib!(lib_dmatrices(&link, &hb, &tb, reduced));
            // homology of the library's complex by the harness's own elimination, compared with the cube
            let primes = primes_for(tier, std::iter::empty());
            let refh = total_z(&cube, &hb, &tb, &primes).map_err(|e| Bad::Discard(e))?;
            let degs: BTreeSet<isize> = dm.keys().cloned().chain(refh.keys().cloned()).collect();
            let info: BTreeMap<isize, (usize, usize, BTreeMap<u64, Vec<u32>>)> = dm.iter().map(|(i, (n, rows))| {
                let r = local::rank_q_sparse(rows, *n);
                (*i, (*n, r, primes.iter().map(|p| (*p, local::local_smith_sparse(rows, *n, *p).into_iter().filter(|v| *v > 0).collect())).collect()))
            }).collect();
            // d.d = 0 and degree +1 / shapes
            for (i, (n, rows)) in &dm {
                ensure!(rows.iter().all(|r| r.keys().all(|cc| cc < n)), "{what}: d_{i} has a column index outside C^{i}");
                if let Some((n2, rows2)) = dm.get(&(i + 1)) {
                    ensure!(rows.len() == *n2, "{what}: d_{i} has {} rows but C^{} has rank {}", rows.len(), i + 1, n2);
                    for r2 in rows2 { let mut acc: BTreeMap<usize, BigInt> = BTreeMap::new();
                        for (k, v) in r2 { for (cc, w) in &rows[*k] { *acc.entry(*cc).or_insert_with(BigInt::zero) += v * w; } }
                        ensure!(acc.values().all(|x| x.is_zero()), "{what}: d_{} d_{i} != 0", i + 1); }
                }
            }
            let _ = qs;
            for i in degs {
                let (n, r_out) = info.get(&i).map(|x| (x.0, x.1)).unwrap_or((0, 0));
                let (r_in, tors) = info.get(&(i - 1)).map(|x| (x.1, x.2.clone())).unwrap_or((0, BTreeMap::new()));
                let lib = RefH { rank: n - r_out - r_in, tors: tors.into_iter().filter(|(_, v)| !v.is_empty()).collect() };
                let rf = refh.get(&i).cloned().unwrap_or_default();
                let rf = RefH { rank: rf.rank, tors: rf.tors.into_iter().filter(|(_, v)| !v.is_empty()).collect() };
                if !rf.tors.is_empty() { has_tors = true; }
                ensure!(lib == rf, "{what}: homology of the library complex in degree {i} is {:?}, cube gives {:?}", lib, rf);
            }
        }
        (Route::Total, KRing::ZBig) | (Route::Total, KRing::Zi64) => {
            let lt: LibTot = if c.ring == KRing::ZBig { lib!(lib_total::<BigInt>(&link, &hb, &tb, reduced)) } else { lib!(lib_total::<i64>(&link, &(h as i64), &(t as i64), reduced)) };
            let primes = primes_for(tier, lt.values().flat_map(|v| v.1.iter().cloned()));
            let refh = total_z(&cube, &hb, &tb, &primes).map_err(|e| Bad::Discard(e))?;
            let degs: BTreeSet<isize> = lt.keys().cloned().chain(refh.keys().cloned()).collect();
            for i in degs {
                let (lr, ltor) = lt.get(&i).cloned().unwrap_or((0, vec![]));
                let rf = refh.get(&i).cloned().unwrap_or_default();
                if !ltor.is_empty() { has_tors = true; }
                ensure!(ltor.iter().all(|x| !x.is_zero() && x.magnitude() != &num_bigint::BigUint::from(1u32)), "{what}: degree {i}: torsion order 0 or 1 reported: {:?}", ltor);
                if let Err(e) = same_group(lr, &ltor, &rf, &primes) { return bad(format!("{what}: degree {i}: {e}")) }
            }
            // bound for torsion at primes outside the compared set: dimension over one further prime field
            let extra = tier.pick(&local::EXTRA_PRIMES[..1], &local::EXTRA_PRIMES[..]);
            for q in extra { if primes.contains(q) { continue }
                let dims = total_field(&cube, &hb, &tb, *q);
                for (i, d) in dims { let lr = lt.get(&i).map(|v| v.0).unwrap_or(0); ensure!(d == lr, "{what}: degree {i}: dimension over F_{q} is {d} but the library reports free rank {lr} and no {q}-torsion"); } }
        }
        (Route::Bigraded, KRing::ZBig) | (Route::Bigraded, KRing::Zi64) => {
            let lb: LibBi = if c.ring == KRing::ZBig { lib!(lib_bigraded_b::<BigInt>(&link, reduced)) } else { lib!(lib_bigraded_b::<i64>(&link, reduced)) };
            let primes = primes_for(tier, lb.values().flat_map(|v| v.1.iter().cloned()));
            let refb = bigraded_z(&cube, &primes).map_err(|e| Bad::Discard(e))?;
            let keys: BTreeSet<(isize, isize)> = lb.keys().cloned().chain(refb.keys().cloned()).collect();
            for k in keys {
                let (lr, ltor) = lb.get(&k).cloned().unwrap_or((0, vec![]));
                let rf = refb.get(&k).cloned().unwrap_or_default();
                if !ltor.is_empty() { has_tors = true; }
                if let Err(e) = same_group(lr, &ltor, &rf, &primes) { return bad(format!("{what}: bidegree {:?}: {e}", k)) }
            }
        }
        (Route::Total, fld) => {
            let q = match fld { KRing::Q => 0u64, KRing::F2 | KRing::F2c => 2, _ => 3 };
            let lt: LibTot = match fld {
                KRing::Q => lib!(lib_total::<Ratio<i64>>(&link, &Ratio::from(h as i64), &Ratio::from(t as i64), reduced)),
                KRing::F2 => lib!(lib_total::<FF2>(&link, &FF2::from(h as i64), &FF2::from(t as i64), reduced)),
                KRing::F2c => lib!(lib_total::<FF<2>>(&link, &FF::<2>::new(h as i32), &FF::<2>::new(t as i32), reduced)),
                _ => lib!(lib_total::<FF<3>>(&link, &FF::<3>::new(h as i32), &FF::<3>::new(t as i32), reduced)),
            };
            let dims = total_field(&cube, &hb, &tb, q);
            let degs: BTreeSet<isize> = lt.keys().cloned().chain(dims.keys().cloned()).collect();
            for i in degs {
                let (lr, ltor) = lt.get(&i).cloned().unwrap_or((0, vec![]));
                ensure!(ltor.is_empty(), "{what}: degree {i}: torsion over a field");
                let d = dims.get(&i).cloned().unwrap_or(0);
                ensure!(lr == d, "{what}: degree {i}: dimension {lr} (library) vs {d} (cube)");
            }
        }
        (Route::Bigraded, fld) => {
            let q = match fld { KRing::Q => 0u64, KRing::F2 | KRing::F2c => 2, _ => 3 };
            let lb: LibBi = match fld {
                KRing::Q => lib!(lib_bigraded_b::<Ratio<i64>>(&link, reduced)),
                KRing::F2 => lib!(lib_bigraded_b::<FF2>(&link, reduced)),
                KRing::F2c => lib!(lib_bigraded_b::<FF<2>>(&link, reduced)),
                _ => lib!(lib_bigraded_b::<FF<3>>(&link, reduced)),
            };
            let dims = bigraded_field(&cube, q);
            let keys: BTreeSet<(isize, isize)> = lb.keys().cloned().chain(dims.keys().cloned()).collect();
            for k in keys {
                let lr = lb.get(&k).map(|v| v.0).unwrap_or(0);
                let d = dims.get(&k).cloned().unwrap_or(0);
                ensure!(lr == d, "{what}: bidegree {:?}: dimension {lr} (library) vs {d} (cube)", k);
            }
        }
    }
    let ncomp = dg.components().map(|c| c.len()).unwrap_or(0);
    let nt = dg.ncross() >= 2 && (has_tors || ncomp >= 2 || (h, t) != (0, 0) || reduced);
    Ok(Pass::new().nt(nt).label(format!("ring:{:?}", c.ring)).label(format!("route:{}", match c.route { Route::Compose(_) => "Compose".to_string(), r => format!("{:?}", r) })).label(format!("crossings:{}", dg.ncross()))
        .label_if(has_tors, "torsion").label_if(ncomp >= 2, "multi-component").label_if((h, t) != (0, 0), "ht!=0").label_if(reduced, "reduced").label_if(dg.nfree() > 0, "over-only-component"))
}

pub fn ht_strategy() -> BoxedStrategy<(i8, i8)> {
    prop_oneof![3 => Just((0i8, 0i8)), 2 => Just((1, 0)), 2 => Just((0, 1)), 2 => (-3i8..=3).prop_map(|h| (h, 0)), 2 => (-3i8..=3).prop_map(|t| (0, t)), 3 => (-3i8..=3, -3i8..=3)].boxed()
}

impl Prop for C01 {
    type Case = Case;
    const ID: &'static str = "C01";
    fn rule() -> String {
        "case = (diagram: table link / braid closure / torus link / corner case (empty, unknot, kinks, unlinks, Hopf) with 0..2 modifications (kinks of all four kinds, a circle laid over or under an edge, split union, connected sum, renumbering, crossing reordering, orientation reversal, mirror); ring in {BigInt, i64, Ratio<i64>, FF2, FF<2>, FF<3>}; (h,t) in [-3,3]^2 weighted to (0,0),(1,0),(0,1); reduced (t = 0); thread count in {1,2,4,16}; route in {KhHomology (total), KhComplexBigraded.homology (h=t=0), KhComplex.d_matrix + own elimination, and (one case in 11, <= 6 crossings) the planar-algebra composition itself: two TngComplex pieces built separately from a generated split of the crossing list, each with the degree shift of its own crossings, joined by TngComplex::connect, simplified by the builder and read as total and (h=t=0) bigraded homology over Z}). \
         oracle: the harness's own cube of resolutions (all 2^n states, Frobenius algebra X^2 = hX + t) with homology by its own sparse elimination over F_q and Z/p^K: free rank and p-primary torsion exponents per degree / bidegree over Z (p in {2,3,5,7} (all p <= 31 thorough) and the prime factors of the reported orders, plus the dimension over F_37.. as a bound for other primes), dimensions over Q, F2, F3. \
         non-trivial = >= 2 crossings and (torsion, or >= 2 components, or (h,t) != (0,0), or reduced)".into()
    }
    fn assumptions() -> Vec<String> { vec![
        "diagrams above the oracle's size cap (crossings / 60000 generators) are discards".into(),
        "torsion at a prime outside the compared set that the library also fails to report is bounded only by the extra F_q dimensions".into(),
        "elimination order is sampled through crossing reordering, thread-pool size and the engine's own per-process hash order".into() ] }
    fn strategy(tier: Tier) -> BoxedStrategy<Case> {
        let maxc = cross_cap(tier, true);
        let ring = prop_oneof![4 => Just(KRing::ZBig), 1 => Just(KRing::Zi64), 2 => Just(KRing::Q), 1 => Just(KRing::F2), 1 => Just(KRing::F2c), 2 => Just(KRing::F3)];
        let route = prop_oneof![10 => Just(Route::Total), 6 => Just(Route::Bigraded), 4 => Just(Route::DMatrix), 2 => any::<u16>().prop_map(Route::Compose)];
        let small = tier.pick(6usize, 7usize);
        route.prop_flat_map(move |route| { let d = if matches!(route, Route::Compose(_)) { dspec_strategy(small, 1) } else { dspec_strategy(maxc - 1, 2) }; (d, Just(route)) })
            .prop_flat_map(move |(d, route)| (Just(d), ring.clone(), ht_strategy(), any::<bool>(), any::<u8>(), Just(route)))
            .prop_map(|(d, ring, (h, t), reduced, threads, route)| Case { d, ring, h, t, reduced, threads, route }).boxed()
    }
    fn cases(tier: Tier) -> u32 { tier.pick(5_000, 40_000) }
    fn shards(tier: Tier) -> usize { tier.pick(8, 16) }
    fn replay_repeats() -> usize { 5 }
    fn run(case: &Case, ctx: &Ctx) -> Outcome { to_outcome(run_case(case, ctx.tier)) }
}

#[allow(unused)]
fn _u() { let _ = BigInt::zero().to_u64(); }
