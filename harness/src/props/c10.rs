//! C10 LLL and LLL-based Hermite normal form return unimodular, reduced results.

use num_bigint::BigInt;
use num_rational::BigRational;
use num_traits::{One, Signed, Zero};
use proptest::prelude::*;
use serde::{Deserialize, Serialize};
use yui_matrix::dense::lll::{lll, lll_hnf, LLLRing, LLLRingOps};
use yui_matrix::dense::Mat;

use crate::engine::*;
use crate::ensure;
use crate::kit::matgen::*;
use crate::kit::refalg::*;
use crate::kit::refmat::*;
use crate::kit::sc::*;

pub struct C10;

#[derive(Clone, Debug, Serialize, Deserialize)]
pub struct Case { pub ty: Ty, pub spec: MatSpec, pub flags: [bool; 2], pub lll_trans: bool }

pub const TYPES: &[Ty] = &[Ty::I64, Ty::I128, Ty::Big, Ty::Big, Ty::GI64, Ty::GBig, Ty::GBig, Ty::EI64, Ty::EBig, Ty::EBig];

fn maxdim(tier: Tier) -> usize { tier.pick(5, 8) }

/// element a + b w of the fraction field of Z[w] (d = -1: w = i; d = -3: w^2 = w - 1); integers use b = 0
#[derive(Clone, Debug, PartialEq)]
struct KQ { a: BigRational, b: BigRational, d: i32 }

impl KQ {
    fn zero(d: i32) -> KQ { KQ { a: BigRational::zero(), b: BigRational::zero(), d } }
    fn of(v: &RV, d: i32) -> KQ {
        match v {
            RV::Z(x) => KQ { a: BigRational::from_integer(x.clone()), b: BigRational::zero(), d },
            RV::Quad(x, y) => KQ { a: BigRational::from_integer(x.clone()), b: BigRational::from_integer(y.clone()), d },
            _ => panic!("KQ::of"),
        }
    }
    fn is_zero(&self) -> bool { self.a.is_zero() && self.b.is_zero() }
    fn add(&self, o: &KQ) -> KQ { KQ { a: &self.a + &o.a, b: &self.b + &o.b, d: self.d } }
    fn sub(&self, o: &KQ) -> KQ { KQ { a: &self.a - &o.a, b: &self.b - &o.b, d: self.d } }
    fn mul(&self, o: &KQ) -> KQ {
        let (a, b, c, e) = (&self.a, &self.b, &o.a, &o.b);
        if self.d == -3 { KQ { a: a * c - b * e, b: a * e + b * c + b * e, d: self.d } } else { KQ { a: a * c - b * e, b: a * e + b * c, d: self.d } }
    }
    fn conj(&self) -> KQ { if self.d == -3 { KQ { a: &self.a + &self.b, b: -&self.b, d: self.d } } else { KQ { a: self.a.clone(), b: -&self.b, d: self.d } } }
    fn norm(&self) -> BigRational { let n = self.mul(&self.conj()); debug_assert!(n.b.is_zero()); n.a }
    fn inv(&self) -> KQ { let n = self.norm(); let c = self.conj(); KQ { a: &c.a / &n, b: &c.b / &n, d: self.d } }
    fn div(&self, o: &KQ) -> KQ { self.mul(&o.inv()) }
    /// (real part, imaginary coordinate) in the basis the ring documents for rounding: Z[i]: (1, i); Z[w]: (1, w - 1)
    fn round_coords(&self) -> (BigRational, BigRational) { if self.d == -3 { (&self.a + &self.b, self.b.clone()) } else { (self.a.clone(), self.b.clone()) } }
}

fn hdot(x: &[KQ], y: &[KQ], d: i32) -> KQ { x.iter().zip(y.iter()).fold(KQ::zero(d), |s, (a, b)| s.add(&a.mul(&b.conj()))) }

fn rank_and_det(rows: &[Vec<KQ>], d: i32) -> (usize, Option<KQ>) {
    let m = rows.len(); let n = rows.first().map(|r| r.len()).unwrap_or(0);
    let mut a: Vec<Vec<KQ>> = rows.to_vec();
    let mut det = KQ { a: BigRational::one(), b: BigRational::zero(), d };
    let (mut r, mut sign) = (0usize, false);
    for c in 0..n {
        if r >= m { break }
        let Some(p) = (r..m).find(|i| !a[*i][c].is_zero()) else { continue };
        if p != r { a.swap(p, r); sign = !sign; }
        let piv = a[r][c].clone();
        det = det.mul(&piv);
        for i in r + 1..m { if a[i][c].is_zero() { continue } let f = a[i][c].div(&piv); for j in c..n { let t = f.mul(&a[r][j]); a[i][j] = a[i][j].sub(&t); } }
        r += 1;
    }
    let det = if m == n { Some(if r < m { KQ::zero(d) } else if sign { KQ::zero(d).sub(&det) } else { det }) } else { None };
    (r, det)
}

fn lib<T: Sc, R>(what: &str, f: impl FnOnce() -> R) -> Chk<R> {
    match guard(f) {
        Ok(v) => Ok(v),
        Err(m) => if T::machine() && is_arith_overflow(&m) { discard("machine-overflow") } else { bad(format!("{what}: panicked: {m}")) },
    }
}

fn half() -> BigRational { BigRational::new(BigInt::from(1), BigInt::from(2)) }

fn run_ty<T>(c: &Case, tier: Tier) -> Chk<Pass> where T: Sc + LLLRing, for<'x> &'x T: LLLRingOps<T> {
    let k = T::rk();
    let d = match k { RK::Quad(d) => d, _ => -1 };
    let b = build(k, c.ty.machine_bits(), &c.spec, maxdim(tier));
    let a = &b.a;
    let what = format!("[{}] A = {}", k.name(), a.show());
    let what = if what.len() > 1500 { format!("{}...", &what[..1500]) } else { what };
    let Some(am): Option<Mat<T>> = rm_to_mat(a) else { return discard("unrepresentable-operand") };
    let akq: Vec<Vec<KQ>> = a.a.iter().map(|r| r.iter().map(|x| KQ::of(x, d)).collect()).collect();
    let (rank, _) = rank_and_det(&akq, d);
    let mut pass = Pass::new().label(format!("ty:{:?}", c.ty));

    // ---------------- Hermite normal form
    let (h, p, pinv) = lib::<T, _>(&format!("{what}: lll_hnf"), || lll_hnf(&am, c.flags))?;
    ensure!(p.is_some() == c.flags[0] && pinv.is_some() == c.flags[1], "{what}: transforms returned do not match the flags {:?}", c.flags);
    let hm = mat_to_rm(&h);
    ensure!(hm.shape() == a.shape(), "{what}: H has shape {:?}", hm.shape());
    if let Some(p) = &p { let pm = mat_to_rm(p); ensure!(pm.shape() == (a.m, a.m), "{what}: P shape"); ensure!(pm.mul(a) == hm, "{what}: H != P A  (H = {}, P = {})", hm.show(), pm.show()); }
    if let (Some(p), Some(pi)) = (&p, &pinv) { let (pm, pim) = (mat_to_rm(p), mat_to_rm(pi)); ensure!(pm.mul(&pim).is_id() && pim.mul(&pm).is_id(), "{what}: P P^-1 != I (P = {}, P^-1 = {})", pm.show(), pim.show()); }
    if let Some(pi) = &pinv { let pim = mat_to_rm(pi); ensure!(pim.mul(&hm) == *a, "{what}: A != P^-1 H  (H = {}, P^-1 = {})", hm.show(), pim.show()); }
    // echelon form
    let lead: Vec<Option<usize>> = hm.a.iter().map(|r| r.iter().position(|x| !k.is_zero(x))).collect();
    let nz = lead.iter().take_while(|l| l.is_some()).count();
    ensure!(lead[nz..].iter().all(|l| l.is_none()), "{what}: a zero row is followed by a non-zero row: H = {}", hm.show());
    ensure!(nz == rank, "{what}: H has {nz} non-zero rows but rank A = {rank}: H = {}", hm.show());
    for i in 0..nz {
        let j = lead[i].unwrap();
        if i + 1 < nz { ensure!(j < lead[i + 1].unwrap(), "{what}: leading columns not strictly increasing: H = {}", hm.show()); }
        let piv = &hm.a[i][j];
        ensure!(k.is_normal(piv), "{what}: pivot ({i},{j}) = {:?} is not normalised: H = {}", SV::of(piv), hm.show());
        let sp = k.size(piv).unwrap();
        for t in 0..i { let x = &hm.a[t][j]; if let Some(sx) = k.size(x) { ensure!(sx < sp, "{what}: entry ({t},{j}) = {:?} above the pivot {:?} is not of strictly smaller norm: H = {}", SV::of(x), SV::of(piv), hm.show()); } }
        for t in i + 1..hm.m { ensure!(k.is_zero(&hm.a[t][j]), "{what}: non-zero entry below the pivot ({i},{j}): H = {}", hm.show()); }
    }
    if rank < a.m.min(a.n) || a.m > a.n { pass = pass.label("hnf-rank-deficient-or-tall"); }

    // ---------------- LLL (independent rows, m >= 1)
    let mut swap_forcing = false;
    if a.m >= 1 && rank == a.m {
        let (bm, pm) = lib::<T, _>(&format!("{what}: lll"), || lll(&am, c.lll_trans))?;
        ensure!(pm.is_some() == c.lll_trans, "{what}: lll transform flag");
        let brm = mat_to_rm(&bm);
        ensure!(brm.shape() == a.shape(), "{what}: lll result shape");
        if let Some(pm) = &pm {
            let prm = mat_to_rm(pm);
            ensure!(prm.mul(a) == brm, "{what}: B != P A (B = {}, P = {})", brm.show(), prm.show());
            let pk: Vec<Vec<KQ>> = prm.a.iter().map(|r| r.iter().map(|x| KQ::of(x, d)).collect()).collect();
            let (_, det) = rank_and_det(&pk, d);
            let det = det.unwrap();
            ensure!(det.norm().abs().is_one() && det.a.is_integer() && det.b.is_integer(), "{what}: det P = {:?} is not a unit (P = {})", det, prm.show());
        }
        let bk: Vec<Vec<KQ>> = brm.a.iter().map(|r| r.iter().map(|x| KQ::of(x, d)).collect()).collect();
        let (rk, _) = rank_and_det(&bk, d);
        ensure!(rk == a.m, "{what}: lll result is rank deficient: B = {}", brm.show());
        // exact Gram-Schmidt
        let m = a.m;
        let mut bs: Vec<Vec<KQ>> = vec![]; let mut nn: Vec<BigRational> = vec![];
        let mut mu = vec![vec![KQ::zero(d); m]; m];
        for i in 0..m {
            let mut v = bk[i].clone();
            for j in 0..i {
                let mij = hdot(&bk[i], &bs[j], d).div(&KQ { a: nn[j].clone(), b: BigRational::zero(), d });
                for t in 0..v.len() { let s = mij.mul(&bs[j][t]); v[t] = v[t].sub(&s); }
                mu[i][j] = mij;
            }
            nn.push(hdot(&v, &v, d).a.clone());
            bs.push(v);
        }
        let (alpha, nbound) = match k { RK::Quad(-3) => (BigRational::new(BigInt::from(2), BigInt::from(3)), BigRational::new(BigInt::from(3), BigInt::from(4))), _ => (BigRational::new(BigInt::from(3), BigInt::from(4)), half()) };
        for i in 0..m { for j in 0..i {
            let (x, y) = mu[i][j].round_coords();
            ensure!(x.abs() <= half() && y.abs() <= half(), "{what}: not size-reduced: mu[{i},{j}] has rounding coordinates ({x}, {y}) (B = {})", brm.show());
            let nm = mu[i][j].norm();
            if matches!(k, RK::Z) { ensure!(nm <= BigRational::new(BigInt::from(1), BigInt::from(4)), "{what}: |mu[{i},{j}]| > 1/2"); } else { ensure!(nm <= nbound, "{what}: N(mu[{i},{j}]) = {nm} exceeds the bound"); }
        } }
        for i in 1..m {
            let lhs = nn[i].clone();
            let rhs = (&alpha - mu[i][i - 1].norm()) * &nn[i - 1];
            ensure!(lhs >= rhs, "{what}: Lovasz condition fails at k = {i}: |b*_k|^2 = {lhs} < (alpha - N(mu)) |b*_k-1|^2 = {rhs}  (B = {})", brm.show());
        }
        // was the input itself already reduced? (then nothing was exercised)
        if m >= 2 && brm != *a { swap_forcing = true; }
        pass = pass.label("lll-run").label_if(m >= 4, "lll-m>=4");
    }

    let big = a.a.iter().flatten().any(|x| match x { RV::Z(z) => z.bits() > 53, RV::Quad(p, q) => p.bits() > 53 || q.bits() > 53, _ => false });
    Ok(pass.nt(rank < a.m.min(a.n) && rank > 0 || swap_forcing || big).label_if(big, "beyond-2^53").label_if(swap_forcing, "lll-changed-basis").label_if(a.m == 0 || a.n == 0, "zero-dimension"))
}

fn run_c10<T>(c: &Case, tier: Tier) -> Chk<Pass> where T: Sc + LLLRing, for<'x> &'x T: LLLRingOps<T> {
    match guard(|| run_ty::<T>(c, tier)) {
        Ok(r) => r,
        Err(m) => if T::machine() && is_arith_overflow(&m) { discard("machine-overflow") } else { bad(format!("panicked: {m}")) },
    }
}

fn run_case(c: &Case, tier: Tier) -> Chk<Pass> {
    use num_bigint::BigInt as B; use yui::{EisenInt, GaussInt};
    match c.ty {
        Ty::I64 => run_c10::<i64>(c, tier), Ty::I128 => run_c10::<i128>(c, tier), Ty::Big => run_c10::<B>(c, tier),
        Ty::GI64 => run_c10::<GaussInt<i64>>(c, tier), Ty::GBig => run_c10::<GaussInt<B>>(c, tier),
        Ty::EI64 => run_c10::<EisenInt<i64>>(c, tier), Ty::EBig => run_c10::<EisenInt<B>>(c, tier),
        _ => discard("out-of-domain"),
    }
}

impl Prop for C10 {
    type Case = Case;
    const ID: &'static str = "C10";
    fn rule() -> String {
        "case = (ring type among i64, i128, BigInt, Gauss/Eisenstein over i64 and BigInt; matrix m x n, m,n in 0..5 (8 thorough), planted or random incl. zero rows, proportional rows, any rank; entries small / medium / beyond 2^53 to hundreds of digits; transform flags). \
         HNF: H = P A, P P^-1 = I, A = P^-1 H (reference products), zero rows last, number of non-zero rows = rank (own elimination over the fraction field), leading columns strictly increasing, pivots normalised, zeros below, entries above a pivot of strictly smaller norm. \
         LLL (when the rows are independent and m >= 1): B = P A, det P a unit (own elimination), exact Gram-Schmidt in Q / Q(i) / Q(w): rounding coordinates of every mu_ij within 1/2 (basis (1,i) resp. (1,w-1)) and N(mu) <= 1/4, 1/2, 3/4, Lovasz condition with alpha = 3/4, 3/4, 2/3. \
         non-trivial = 0 < rank < min(m,n), or LLL changed the basis (m >= 2), or an entry beyond 2^53".into()
    }
    fn assumptions() -> Vec<String> { vec![
        "LLL is exercised only on matrices with independent rows and m >= 1 (the property's precondition)".into(),
        "arithmetic-overflow panics of machine-integer instantiations are discards".into() ] }
    fn strategy(tier: Tier) -> BoxedStrategy<Case> {
        let md = maxdim(tier) as u8;
        prop::sample::select(TYPES.to_vec()).prop_flat_map(move |ty| {
            (Just(ty), mat_spec(ty, tier, md), prop_oneof![3 => Just([true, true]), 1 => any::<[bool; 2]>()], prop_oneof![4 => Just(true), 1 => Just(false)])
                .prop_map(|(ty, spec, flags, lll_trans)| {
                    // bias towards wide matrices (m <= n) so that the LLL part runs often
                    let spec = match spec {
                        MatSpec::Planted { m, n, diag, chain, ops } if m > n && lll_trans => MatSpec::Planted { m: n, n: m, diag, chain, ops },
                        MatSpec::Random { m, n, entries } if m > n && lll_trans => MatSpec::Random { m: n, n: m, entries },
                        s => s };
                    Case { ty, spec, flags, lll_trans } })
        }).boxed()
    }
    fn cases(tier: Tier) -> u32 { tier.pick(150_000, 500_000) }
    fn shards(_: Tier) -> usize { 16 }
    fn fuzz_in_domain(c: &Case) -> bool { let (bits, deg) = c.spec.size(); bits <= 700 && deg <= 4 }
    fn run(case: &Case, ctx: &Ctx) -> Outcome { to_outcome(run_case(case, ctx.tier)) }
}
