//! C04 Graded Euler characteristic of Kh is the Jones polynomial (= Kauffman state sum), invariant under moves.

use num_bigint::BigInt;
use proptest::prelude::*;
use serde::{Deserialize, Serialize};
use std::collections::BTreeMap;
use yui::poly::Mono;
use yui_link::util::jones_polynomial;

use crate::engine::*;
use crate::ensure;
use crate::kit::dgen::*;
use crate::kit::diagram::*;
use crate::props::c01::lib_bigraded_b;
use crate::props::c18::own_jones;

pub struct C04;

#[derive(Clone, Debug, Serialize, Deserialize)]
pub struct Case { pub iso: IsoSpec, pub extra: u8 }

type P = BTreeMap<i64, i64>;

fn lib_jones(d: &Dg) -> Result<P, String> {
    let l = d.to_link();
    let p = guard(|| jones_polynomial(&l))?;
    let mut out = P::new();
    for (x, c) in p.iter() { *out.entry(x.deg() as i64).or_insert(0) += *c as i64; }
    out.retain(|_, v| *v != 0);
    Ok(out)
}

fn euler(d: &Dg) -> Result<P, String> {
    let l = d.to_link();
    let t = guard(|| lib_bigraded_b::<BigInt>(&l, false))?;
    let mut out = P::new();
    for ((i, j), (r, _)) in t { *out.entry(j as i64).or_insert(0) += if i.rem_euclid(2) == 0 { r as i64 } else { -(r as i64) }; }
    out.retain(|_, v| *v != 0);
    Ok(out)
}

fn pmul(a: &P, b: &P) -> P { let mut r = P::new(); for (e1, c1) in a { for (e2, c2) in b { *r.entry(e1 + e2).or_insert(0) += c1 * c2; } } r.retain(|_, v| *v != 0); r }
fn pinv(a: &P) -> P { a.iter().map(|(e, c)| (-e, *c)).collect() }
fn unknot() -> P { [(1, 1), (-1, 1)].into_iter().collect() }

fn run_case(c: &Case, tier: Tier) -> Chk<Pass> {
    let b = match build_iso(&c.iso) { Ok(b) => b, Err(e) => return discard(format!("diagram-build: {e}")) };
    let cap = tier.pick(10usize, 12usize);
    if b.base.ncross() > cap || b.moved.ncross() > cap + 2 { return discard("size-cap") }
    if b.base.orient(0).is_err() || b.moved.orient(0).is_err() { return discard("diagram-invalid") }
    let what = format!("{:?} base={:?}", c.iso, b.base.x);
    let what = if what.len() > 1000 { format!("{}...", &what[..1000]) } else { what };
    let three = |d: &Dg, name: &str| -> Chk<P> {
        let own = own_jones(d).map_err(Bad::Fail)?;
        let lj = lib_jones(d).map_err(|e| Bad::Fail(format!("{what}: jones_polynomial({name}) panicked: {e}")))?;
        ensure!(lj == own, "{what}: jones_polynomial of the {name} diagram {:?} = {:?}, Kauffman state sum = {:?}", d.x, lj, own);
        if d.ncross() <= tier.pick(9, 11) {
            let eu = euler(d).map_err(|e| Bad::Fail(format!("{what}: Kh({name}) panicked: {e}")))?;
            ensure!(eu == lj, "{what}: graded Euler characteristic of Kh of the {name} diagram = {:?}, Jones routine = {:?}", eu, lj);
        }
        Ok(own)
    };
    let jb = three(&b.base, "base")?;
    let jm = three(&b.moved, "moved")?;
    ensure!(jb == jm, "{what}: Jones polynomial changes under isotopy moves: {:?} -> {:?} (moved diagram {:?})", jb, jm, b.moved.x);
    // mirror: q -> 1/q
    let pure = b.base.x.iter().all(|x| x.0 == CT::X);
    let mirror = b.base.mirror_type();
    let jmir = lib_jones(&mirror).map_err(|e| Bad::Fail(format!("{what}: jones_polynomial(mirror) panicked: {e}")))?;
    ensure!(jmir == pinv(&jb), "{what}: mirror image has Jones polynomial {:?}, expected {:?}", jmir, pinv(&jb));
    // multiplicativity: an extra unknotted circle across an edge, split union with the Hopf link
    if pure && b.base.ncross() + 2 <= cap && !b.base.x.is_empty() {
        let l = b.base.labels().into_iter().next().unwrap();
        let d2 = b.base.circle_across(l, c.extra % 2 == 0).map_err(Bad::Fail)?;
        let j2 = lib_jones(&d2).map_err(|e| Bad::Fail(format!("{what}: jones(circle across) panicked: {e}")))?;
        ensure!(j2 == pmul(&jb, &unknot()), "{what}: with an unknotted circle laid {} an edge ({:?}) the Jones polynomial is {:?}, expected (q + 1/q) * {:?}", if c.extra % 2 == 0 { "over" } else { "under" }, d2.x, j2, jb);
        ensure!(own_jones(&d2).map_err(Bad::Fail)? == j2, "{what}: state sum of the circle diagram");
    }
    let ncomp = b.base.components().map(|c| c.len()).unwrap_or(0);
    Ok(Pass::new().nt(b.base.ncross() >= 3 || ncomp >= 2).label_if(b.braid_moves > 0, "braid-moves").label_if(b.kinks > 0, "kinks").label_if(ncomp >= 2, "multi-component").label_if(b.base.nfree() > 0 || b.moved.nfree() > 0, "over-only-component"))
}

impl Prop for C04 {
    type Case = Case;
    const ID: &'static str = "C04";
    fn rule() -> String {
        "case = (base diagram (table link, braid closure, torus link, corner case, optionally one modification) with <= 10 (12 thorough) crossings; braid moves (far commutation, braid relation, sigma sigma^-1 insertion/removal, conjugation, +-stabilisation) on closed-braid bases; PD moves (R1 kinks of four kinds on any edge, renumbering, reordering, global reversal)). \
         for the base and the moved diagram: library jones_polynomial == the harness's own Kauffman state sum (own signs, own circle counts) == sum (-1)^i q^j rank Kh^{i,j} from KhComplexBigraded over Z; equal before and after the moves; mirror gives q -> 1/q; an unknotted circle over/under an edge multiplies by q + 1/q. \
         non-trivial = >= 3 crossings or >= 2 components".into()
    }
    fn strategy(tier: Tier) -> BoxedStrategy<Case> {
        (iso_strategy(tier.pick(8, 10), 5), any::<u8>()).prop_map(|(iso, extra)| Case { iso, extra }).boxed()
    }
    fn cases(tier: Tier) -> u32 { tier.pick(6_000, 120_000) }
    fn shards(_: Tier) -> usize { 16 }
    fn run(case: &Case, ctx: &Ctx) -> Outcome { to_outcome(run_case(case, ctx.tier)) }
}
