pub mod engine;
pub mod kit;
pub mod props;
