pub mod engine;
pub mod fuzz;
pub mod kit;
pub mod props;
