//! Driver shared by all property modules: sharded proptest runners with fixed
//! seeds, statistics, shrinking, replay files, known findings, evidence.

use std::collections::{BTreeMap, HashSet};
use std::fmt::Debug;
use std::hash::{Hash, Hasher};
use std::panic::{catch_unwind, AssertUnwindSafe};
use std::path::{Path, PathBuf};
use std::sync::atomic::{AtomicBool, Ordering};
use std::sync::{Arc, Mutex};
use std::time::Instant;

use proptest::strategy::{BoxedStrategy, Strategy};
use proptest::test_runner::{Config, RngAlgorithm, RngSeed, TestCaseError, TestError, TestRunner};
use serde::de::DeserializeOwned;
use serde::Serialize;
use serde_json::{json, Value};

#[derive(Clone, Copy, Debug, PartialEq, Eq)]
pub enum Tier { Quick, Thorough }

impl Tier {
    pub fn name(&self) -> &'static str { match self { Tier::Quick => "quick", Tier::Thorough => "thorough" } }
    pub fn is_thorough(&self) -> bool { *self == Tier::Thorough }
    /// pick by tier
    pub fn pick<T>(&self, q: T, t: T) -> T { match self { Tier::Quick => q, Tier::Thorough => t } }
}

#[derive(Clone, Debug)]
pub enum Outcome {
    Pass { nontrivial: bool, labels: Vec<String> },
    Discard(String),
    Fail(String),
}

impl Outcome {
    pub fn pass(nontrivial: bool, labels: Vec<String>) -> Self { Outcome::Pass { nontrivial, labels } }
    pub fn fail(msg: impl Into<String>) -> Self { Outcome::Fail(msg.into()) }
    pub fn discard(msg: impl Into<String>) -> Self { Outcome::Discard(msg.into()) }
}

/// Result-style helper used inside property code: Err(msg) becomes Fail(msg).
pub type Chk<T = ()> = Result<T, Bad>;

#[derive(Clone, Debug)]
pub enum Bad { Fail(String), Discard(String) }

pub fn bad<T>(msg: impl Into<String>) -> Chk<T> { Err(Bad::Fail(msg.into())) }
pub fn discard<T>(msg: impl Into<String>) -> Chk<T> { Err(Bad::Discard(msg.into())) }

#[macro_export]
macro_rules! ensure {
    ($cond:expr, $($arg:tt)*) => {
        if !($cond) { return Err($crate::engine::Bad::Fail(format!($($arg)*))); }
    };
}

pub struct Pass { pub nontrivial: bool, pub labels: Vec<String> }

impl Pass {
    pub fn new() -> Self { Pass { nontrivial: false, labels: vec![] } }
    pub fn nt(mut self, b: bool) -> Self { self.nontrivial = self.nontrivial || b; self }
    pub fn label(mut self, s: impl Into<String>) -> Self { self.labels.push(s.into()); self }
    pub fn label_if(self, c: bool, s: &str) -> Self { if c { self.label(s) } else { self } }
}

pub fn to_outcome(r: Chk<Pass>) -> Outcome {
    match r {
        Ok(p) => Outcome::Pass { nontrivial: p.nontrivial, labels: p.labels },
        Err(Bad::Fail(m)) => Outcome::Fail(m),
        Err(Bad::Discard(m)) => Outcome::Discard(m),
    }
}

pub struct Ctx { pub tier: Tier, pub seed: u64, pub replay: bool }

pub trait Prop {
    type Case: Clone + Debug + Serialize + DeserializeOwned + Send + 'static;
    const ID: &'static str;
    fn rule() -> String;
    fn assumptions() -> Vec<String> { vec![] }
    fn strategy(tier: Tier) -> BoxedStrategy<Self::Case>;
    /// number of generated cases (total over all shards)
    fn cases(tier: Tier) -> u32;
    /// number of independent runner threads; fixed per tier so a run is a function of the seed
    fn shards(_tier: Tier) -> usize { 8 }
    /// fixed (enumerated) cases run before the generated ones
    fn fixed_cases(_tier: Tier) -> Vec<Self::Case> { vec![] }
    fn fixed_parallel(_tier: Tier) -> usize { 8 }
    fn run(case: &Self::Case, ctx: &Ctx) -> Outcome;
    /// how many times a replay re-runs the case (non-deterministic subjects)
    fn replay_repeats() -> usize { 1 }
    /// coverage-guided stage only: is a byte-decoded case inside the size range the generators produce?  (others are skipped)
    fn fuzz_in_domain(_case: &Self::Case) -> bool { true }
    /// if the failure is an instance of a known finding, its key
    fn finding_key(_case: &Self::Case, _msg: &str) -> Option<String> { None }
    fn max_shrink_iters(_tier: Tier) -> u32 { 2000 }
    /// extra key/values for the evidence coverage object
    fn extra_coverage(_tier: Tier) -> Value { json!({}) }
}

// ---------------------------------------------------------------------------

pub fn verif_root() -> PathBuf {
    std::env::var("VERIF_ROOT").map(PathBuf::from).unwrap_or_else(|_| PathBuf::from("/verif"))
}

pub fn install_panic_hook() {
    std::panic::set_hook(Box::new(|info| {
        if std::env::var("YV_SHOW_PANICS").is_ok() {
            eprintln!("[panic] {info}");
        }
        let loc = info.location().map(|l| format!("{}:{}", l.file(), l.line())).unwrap_or_default();
        LAST_PANIC_LOC.with(|c| *c.borrow_mut() = loc.clone());
        if let Ok(mut g) = LAST_PANIC_LOC_GLOBAL.lock() { *g = loc; }
    }));
}

thread_local! { static LAST_PANIC_LOC: std::cell::RefCell<String> = std::cell::RefCell::new(String::new()); }
static LAST_PANIC_LOC_GLOBAL: Mutex<String> = Mutex::new(String::new());

pub fn payload_msg(p: &Box<dyn std::any::Any + Send>) -> String {
    if let Some(s) = p.downcast_ref::<&'static str>() { s.to_string() }
    else if let Some(s) = p.downcast_ref::<String>() { s.clone() }
    else { "<non-string panic payload>".to_string() }
}

/// Run `f`, turning a panic into Err(message).  The location of the panic (file:line)
/// is appended when it happened on this thread.
pub fn guard<T>(f: impl FnOnce() -> T) -> Result<T, String> {
    LAST_PANIC_LOC.with(|c| c.borrow_mut().clear());
    match catch_unwind(AssertUnwindSafe(f)) {
        Ok(v) => Ok(v),
        Err(p) => {
            let mut loc = LAST_PANIC_LOC.with(|c| c.borrow().clone());
            if loc.is_empty() { loc = LAST_PANIC_LOC_GLOBAL.lock().map(|g| g.clone()).unwrap_or_default(); }
            Err(format!("{} @ {}", payload_msg(&p), loc))
        }
    }
}

/// true for the arithmetic-overflow panics that `overflow-checks = true` produces on
/// machine integers (add/sub/mul/neg/abs/div/rem/pow); shifts are *not* included.
pub fn is_arith_overflow(msg: &str) -> bool {
    msg.starts_with("attempt to add with overflow")
        || msg.starts_with("attempt to subtract with overflow")
        || msg.starts_with("attempt to multiply with overflow")
        || msg.starts_with("attempt to negate with overflow")
        || msg.starts_with("attempt to divide with overflow")
        || msg.starts_with("attempt to calculate the remainder with overflow")
}

fn hash64<T: Hash>(t: &T) -> u64 {
    let mut h = std::collections::hash_map::DefaultHasher::new(); // SipHash with fixed keys: deterministic
    t.hash(&mut h);
    h.finish()
}

fn derive_seed(seed: u64, id: &str, shard: usize) -> u64 {
    hash64(&(seed, id, shard as u64, 0x5eed_u64))
}

#[derive(Default)]
struct Stats {
    evaluations: u64,
    passes: u64,
    nontrivial_evals: u64,
    distinct_nt: HashSet<u64>,
    labels: BTreeMap<String, u64>,
    discards: BTreeMap<String, u64>,
    excluded_known: BTreeMap<String, u64>,
    samples_first: Vec<Value>,
    sample_last: Option<Value>,
    sample_largest: Option<(usize, Value)>,
    sample_any: Option<Value>,
    slowest: Option<(f64, Value)>,
}

impl Stats {
    fn merge(&mut self, o: Stats) {
        self.evaluations += o.evaluations;
        self.passes += o.passes;
        self.nontrivial_evals += o.nontrivial_evals;
        self.distinct_nt.extend(o.distinct_nt);
        for (k, v) in o.labels { *self.labels.entry(k).or_default() += v; }
        for (k, v) in o.discards { *self.discards.entry(k).or_default() += v; }
        for (k, v) in o.excluded_known { *self.excluded_known.entry(k).or_default() += v; }
        for s in o.samples_first { if self.samples_first.len() < 3 { self.samples_first.push(s); } }
        if o.sample_last.is_some() { self.sample_last = o.sample_last; }
        if self.sample_any.is_none() { self.sample_any = o.sample_any; }
        if let Some((t, v)) = o.slowest { if self.slowest.as_ref().map(|s| t > s.0).unwrap_or(true) { self.slowest = Some((t, v)); } }
        if let Some((n, v)) = o.sample_largest {
            if self.sample_largest.as_ref().map(|(m, _)| n > *m).unwrap_or(true) { self.sample_largest = Some((n, v)); }
        }
    }

    fn record<C: Serialize>(&mut self, case: &C, out: &Outcome, known: Option<&str>) {
        self.evaluations += 1;
        if self.sample_any.is_none() {
            if let Ok(v) = serde_json::to_value(case) { self.sample_any = Some(v); }
        }
        match out {
            Outcome::Pass { nontrivial, labels } => {
                self.passes += 1;
                for l in labels { *self.labels.entry(l.clone()).or_default() += 1; }
                if *nontrivial {
                    self.nontrivial_evals += 1;
                    let s = serde_json::to_string(case).unwrap_or_default();
                    let h = hash64(&s);
                    if self.distinct_nt.insert(h) {
                        let n = s.len();
                        if n <= 20_000 {
                            let v: Value = serde_json::from_str(&s).unwrap_or(Value::Null);
                            if self.samples_first.len() < 2 { self.samples_first.push(v.clone()); }
                            if self.sample_largest.as_ref().map(|(m, _)| n > *m).unwrap_or(true) {
                                self.sample_largest = Some((n, v.clone()));
                            }
                            self.sample_last = Some(v);
                        }
                    }
                }
            }
            Outcome::Discard(r) => { *self.discards.entry(r.clone()).or_default() += 1; }
            Outcome::Fail(_) => {
                if let Some(k) = known { *self.excluded_known.entry(k.to_string()).or_default() += 1; }
            }
        }
    }
}

pub struct Finding { pub property: String, pub key: String, pub status: String, pub what: String, pub witness: Option<String> }

pub fn load_findings() -> Vec<Finding> {
    let p = verif_root().join("known_findings.json");
    let Ok(s) = std::fs::read_to_string(&p) else { return vec![] };
    let Ok(v) = serde_json::from_str::<Value>(&s) else { return vec![] };
    v["findings"].as_array().map(|a| a.iter().map(|f| Finding {
        property: f["property"].as_str().unwrap_or("").to_string(),
        key: f["key"].as_str().unwrap_or("").to_string(),
        status: f["status"].as_str().unwrap_or("").to_string(),
        what: f["what"].as_str().unwrap_or("").to_string(),
        witness: f["witness"].as_str().map(|s| s.to_string()),
    }).collect()).unwrap_or_default()
}

fn run_guarded<P: Prop>(case: &P::Case, ctx: &Ctx) -> Outcome {
    match guard(|| P::run(case, ctx)) {
        Ok(o) => o,
        Err(m) => Outcome::Fail(format!("uncaught panic: {m}")),
    }
}

fn write_replay<P: Prop>(case: &P::Case, msg: &str, origin: &str) -> PathBuf {
    let dir = verif_root().join("replays").join("found");
    let _ = std::fs::create_dir_all(&dir);
    let body = json!({ "property": P::ID, "origin": origin, "message": msg, "case": case });
    let s = serde_json::to_string_pretty(&body).unwrap();
    let path = dir.join(format!("{}-{:016x}.json", P::ID, hash64(&serde_json::to_string(case).unwrap_or_default())));
    let _ = std::fs::write(&path, s);
    path
}

pub fn read_replay<P: Prop>(path: &Path) -> Result<P::Case, String> {
    let s = std::fs::read_to_string(path).map_err(|e| format!("{e}"))?;
    let v: Value = serde_json::from_str(&s).map_err(|e| format!("{e}"))?;
    let c = if v.get("case").is_some() { v["case"].clone() } else { v };
    serde_json::from_value(c).map_err(|e| format!("{e}"))
}

pub struct Report { pub exit: i32 }

/// Replay one file: exit 1 + VIOLATION line if it fails (any of `replay_repeats` runs).
pub fn replay<P: Prop>(path: &Path, tier: Tier) -> Report {
    let case = match read_replay::<P>(path) {
        Ok(c) => c,
        Err(e) => { eprintln!("cannot read replay {}: {e}", path.display()); return Report { exit: 2 } }
    };
    let ctx = Ctx { tier, seed: 0, replay: true };
    for k in 0..P::replay_repeats() {
        match run_guarded::<P>(&case, &ctx) {
            Outcome::Fail(m) => {
                println!("replay {} run {k}: FAIL: {m}", path.display());
                println!("VIOLATION property={} replay={}", P::ID, path.display());
                return Report { exit: 1 };
            }
            Outcome::Discard(r) => println!("replay {} run {k}: discard ({r})", path.display()),
            Outcome::Pass { .. } => {}
        }
    }
    println!("replay {}: pass ({} runs)", path.display(), P::replay_repeats());
    Report { exit: 0 }
}

pub fn check<P: Prop>(tier: Tier, seed: u64) -> Report {
    let t0 = Instant::now();
    let ctx = Ctx { tier, seed, replay: false };
    let findings: Vec<Finding> = load_findings().into_iter().filter(|f| f.property == P::ID).collect();
    let open_keys: HashSet<String> = findings.iter().filter(|f| f.status == "open").map(|f| f.key.clone()).collect();
    let mut total = Stats::default();
    let mut violation: Option<(PathBuf, String)> = None;
    let mut known_lines: Vec<String> = vec![];
    let mut regression_replays = 0u64;

    // 1. witnesses of known findings (open: must still fail with its key -> KNOWN-FINDING line; fixed: must pass)
    // YV_SKIP_REGRESSION=1 (used only when measuring which seeded changes the *generated* search finds) skips the saved inputs of repaired defects
    let skip_reg = std::env::var("YV_SKIP_REGRESSION").map(|v| v == "1").unwrap_or(false);
    for f in &findings {
        let Some(w) = &f.witness else { continue };
        if skip_reg && f.status != "open" { continue }
        let path = verif_root().join(w);
        let case = match read_replay::<P>(&path) {
            Ok(c) => c,
            Err(e) => { eprintln!("cannot read witness {}: {e}", path.display()); return Report { exit: 2 } }
        };
        regression_replays += 1;
        let out = run_guarded::<P>(&case, &Ctx { tier, seed, replay: true });
        match (&out, f.status.as_str()) {
            (Outcome::Fail(m), "open") => {
                if P::finding_key(&case, m).as_deref() == Some(f.key.as_str()) {
                    known_lines.push(format!("KNOWN-FINDING: property={} {} [{}]", P::ID, f.what, f.key));
                    total.record(&case, &out, Some(&f.key));
                } else if violation.is_none() {
                    violation = Some((path.clone(), format!("witness of {} fails with a different signature: {m}", f.key)));
                }
            }
            (Outcome::Fail(m), _) => {
                if violation.is_none() { violation = Some((path.clone(), format!("regression ({}): {m}", f.key))); }
            }
            (_, "open") => {
                println!("note: witness of open finding {} no longer fails (defect repaired?)", f.key);
                total.record(&case, &out, None);
            }
            _ => total.record(&case, &out, None),
        }
    }

    // 2. committed regression corpus replays/<ID>/*.json
    let reg_dir = verif_root().join("replays").join(P::ID);
    if let (Ok(rd), false) = (std::fs::read_dir(&reg_dir), skip_reg) {
        let mut files: Vec<PathBuf> = rd.filter_map(|e| e.ok()).map(|e| e.path())
            .filter(|p| p.extension().map(|x| x == "json").unwrap_or(false)).collect();
        files.sort();
        let witness_paths: HashSet<PathBuf> = findings.iter().filter_map(|f| f.witness.as_ref()).map(|w| verif_root().join(w)).collect();
        for path in files {
            if witness_paths.contains(&path) { continue }
            let Ok(case) = read_replay::<P>(&path) else { eprintln!("cannot read {}", path.display()); return Report { exit: 2 } };
            regression_replays += 1;
            let out = run_guarded::<P>(&case, &Ctx { tier, seed, replay: true });
            if let Outcome::Fail(m) = &out {
                let k = P::finding_key(&case, m);
                if let Some(k) = k.filter(|k| open_keys.contains(k)) {
                    total.record(&case, &out, Some(&k));
                } else if violation.is_none() {
                    violation = Some((path.clone(), m.clone()));
                }
            } else {
                total.record(&case, &out, None);
            }
        }
    }

    // 3. fixed cases
    if violation.is_none() {
        let fixed = P::fixed_cases(tier);
        if !fixed.is_empty() {
            let nthreads = P::fixed_parallel(tier).max(1);
            let queue = Arc::new(Mutex::new(fixed.into_iter().enumerate().collect::<Vec<_>>()));
            { let mut q = queue.lock().unwrap(); q.reverse(); }
            let results: Arc<Mutex<Vec<(usize, P::Case, Outcome)>>> = Arc::new(Mutex::new(vec![]));
            std::thread::scope(|s| {
                for _ in 0..nthreads {
                    let queue = queue.clone();
                    let results = results.clone();
                    let ctx = &ctx;
                    s.spawn(move || loop {
                        let item = queue.lock().unwrap().pop();
                        let Some((i, c)) = item else { break };
                        let out = run_guarded::<P>(&c, ctx);
                        results.lock().unwrap().push((i, c, out));
                    });
                }
            });
            let mut rs = std::mem::take(&mut *results.lock().unwrap());
            rs.sort_by_key(|r| r.0);
            for (_, c, out) in rs {
                if let Outcome::Fail(m) = &out {
                    let k = P::finding_key(&c, m);
                    if let Some(k) = k.filter(|k| open_keys.contains(k)) {
                        total.record(&c, &out, Some(&k));
                    } else if violation.is_none() {
                        let p = write_replay::<P>(&c, m, "fixed-case");
                        violation = Some((p, m.clone()));
                    }
                } else {
                    total.record(&c, &out, None);
                }
            }
        }
    }

    // 4. generated cases, sharded
    if violation.is_none() {
        let shards = P::shards(tier).max(1);
        let cases = P::cases(tier);
        let per = (cases as usize + shards - 1) / shards;
        let stop = Arc::new(AtomicBool::new(false));
        let fails: Arc<Mutex<Vec<(usize, P::Case, String)>>> = Arc::new(Mutex::new(vec![]));
        let firsts: Arc<Mutex<Vec<(usize, P::Case, String)>>> = Arc::new(Mutex::new(vec![]));
        let all_stats: Arc<Mutex<Vec<Stats>>> = Arc::new(Mutex::new(vec![]));
        std::thread::scope(|s| {
            for sh in 0..shards {
                let stop = stop.clone();
                let fails = fails.clone();
                let firsts = firsts.clone();
                let all_stats = all_stats.clone();
                let open_keys = &open_keys;
                let ctx = &ctx;
                std::thread::Builder::new().stack_size(64 << 20).spawn_scoped(s, move || {
                    let mut cfg = Config::default();
                    cfg.cases = per as u32;
                    cfg.failure_persistence = None;
                    cfg.rng_algorithm = RngAlgorithm::ChaCha;
                    cfg.rng_seed = RngSeed::Fixed(derive_seed(seed, P::ID, sh));
                    cfg.max_shrink_iters = P::max_shrink_iters(tier);
                    cfg.max_global_rejects = 1_000_000;
                    cfg.max_local_rejects = 1_000_000;
                    cfg.verbose = 0;
                    cfg.source_file = None;
                    cfg.test_name = None;
                    let mut runner = TestRunner::new(cfg);
                    let stats = Mutex::new(Stats::default());
                    let failed = AtomicBool::new(false);
                    let strat = P::strategy(tier);
                    let res = runner.run(&strat, |case| {
                        if failed.load(Ordering::SeqCst) {
                            // shrinking phase: no counting
                            return match run_guarded::<P>(&case, ctx) {
                                Outcome::Fail(m) => {
                                    // keep shrinking only towards the same kind of failure (not a known finding)
                                    if P::finding_key(&case, &m).map(|k| open_keys.contains(&k)).unwrap_or(false) { Ok(()) }
                                    else { Err(TestCaseError::fail(m)) }
                                }
                                _ => Ok(()),
                            };
                        }
                        if stop.load(Ordering::SeqCst) { return Ok(()) }
                        let t_case = Instant::now();
                        let out = run_guarded::<P>(&case, ctx);
                        let dt = t_case.elapsed().as_secs_f64();
                        if dt > 0.5 { let mut st = stats.lock().unwrap(); if st.slowest.as_ref().map(|s| dt > s.0).unwrap_or(true) { st.slowest = serde_json::to_value(&case).ok().map(|v| (dt, v)); } }
                        match &out {
                            Outcome::Fail(m) => {
                                let k = P::finding_key(&case, m);
                                if let Some(k) = k.filter(|k| open_keys.contains(k)) {
                                    stats.lock().unwrap().record(&case, &out, Some(&k));
                                    Ok(())
                                } else {
                                    stats.lock().unwrap().record(&case, &out, None);
                                    failed.store(true, Ordering::SeqCst);
                                    stop.store(true, Ordering::SeqCst);
                                    firsts.lock().unwrap().push((sh, case.clone(), m.clone()));
                                    Err(TestCaseError::fail(m.clone()))
                                }
                            }
                            _ => { stats.lock().unwrap().record(&case, &out, None); Ok(()) }
                        }
                    });
                    if let Err(e) = res {
                        match e {
                            TestError::Fail(reason, case) => fails.lock().unwrap().push((sh, case, reason.message().to_string())),
                            TestError::Abort(reason) => eprintln!("shard {sh}: proptest aborted: {reason}"),
                        }
                    }
                    all_stats.lock().unwrap().push(stats.into_inner().unwrap());
                }).unwrap();
            }
        });
        for st in std::mem::take(&mut *all_stats.lock().unwrap()) { total.merge(st); }
        let mut fs = std::mem::take(&mut *fails.lock().unwrap());
        fs.sort_by_key(|f| (serde_json::to_string(&f.1).map(|s| s.len()).unwrap_or(0), f.0));
        if let Some((sh, case, _)) = fs.into_iter().next() {
            // re-run the minimal case to get its own message
            // re-run the minimal case to get its own message; a non-deterministic subject may pass now: then report the
            // first failing case of that shard (unshrunk) with the message it produced
            let mut msg = None;
            for _ in 0..P::replay_repeats().max(1) { if let Outcome::Fail(m) = run_guarded::<P>(&case, &Ctx { tier, seed, replay: true }) { msg = Some(m); break } }
            let (case, msg) = match msg {
                Some(m) => (case, m),
                None => match std::mem::take(&mut *firsts.lock().unwrap()).into_iter().find(|f| f.0 == sh) {
                    Some((_, c0, m0)) => (c0, format!("{m0}  [reported unshrunk: the shrunk case did not fail again, the subject is non-deterministic]")),
                    None => (case, "(failure did not reproduce on re-run; non-deterministic subject)".to_string()),
                },
            };
            let p = write_replay::<P>(&case, &msg, &format!("generated shard {sh} seed {seed}"));
            violation = Some((p, msg));
        }
    }

    // evidence
    let wall = t0.elapsed().as_secs_f64();
    let mut samples: Vec<Value> = total.samples_first.clone();
    if let Some(v) = &total.sample_last { if !samples.contains(v) { samples.push(v.clone()); } }
    if let Some((_, v)) = &total.sample_largest { if !samples.contains(v) { samples.push(v.clone()); } }
    if samples.is_empty() { if let Some(v) = &total.sample_any { samples.push(json!({"trivial_case": v})); } }
    let mut coverage = json!({
        "evaluations": total.evaluations,
        "distinct_nontrivial": total.distinct_nt.len(),
        "nontrivial_evaluations": total.nontrivial_evals,
        "rule": P::rule(),
        "samples": samples,
        "passes": total.passes,
        "labels": total.labels,
        "discards": total.discards,
        "excluded_by_known_finding": total.excluded_known,
        "regression_replays": regression_replays,
        "generated_cases_requested": P::cases(tier),
        "shards": P::shards(tier),
        "exhaustive": false,
        "slowest_case": total.slowest.as_ref().map(|(t, v)| json!({"seconds": t, "case": v})),
    });
    if let Ok(x) = std::env::var("YV_EXTRA_EVIDENCE") { if let (Some(o), Ok(Value::Object(m))) = (coverage.as_object_mut(), serde_json::from_str::<Value>(&x)) { for (k, v) in m { o.insert(k, v); } } }
    if let (Some(o), Some(e)) = (coverage.as_object_mut(), P::extra_coverage(tier).as_object()) {
        for (k, v) in e { o.insert(k.clone(), v.clone()); }
    }
    let ev = json!({
        "property_id": P::ID,
        "tier": tier.name(),
        "seed": seed,
        "level": "exploration",
        "coverage": coverage,
        "assumptions": P::assumptions(),
        "wall_s": wall,
        "violations": if violation.is_some() { 1 } else { 0 },
        "violation": violation.as_ref().map(|(p, m)| json!({"replay": p.display().to_string(), "message": m})),
    });
    let evdir = verif_root().join("evidence");
    let _ = std::fs::create_dir_all(&evdir);
    let _ = std::fs::write(evdir.join(format!("{}.json", P::ID)), serde_json::to_string_pretty(&ev).unwrap());

    for l in &known_lines { println!("{l}"); }
    let disc: u64 = total.discards.values().sum();
    println!("{} {} seed={} evaluations={} distinct_nontrivial={} discards={} excluded_known={} regression_replays={} wall={:.1}s",
        P::ID, tier.name(), seed, total.evaluations, total.distinct_nt.len(), disc,
        total.excluded_known.values().sum::<u64>(), regression_replays, wall);
    if let Some((p, m)) = violation {
        println!("failure: {}", m.chars().take(2000).collect::<String>());
        println!("VIOLATION property={} replay={}", P::ID, p.display());
        Report { exit: 1 }
    } else {
        Report { exit: 0 }
    }
}

pub fn boxed<S: Strategy + 'static>(s: S) -> BoxedStrategy<S::Value> { s.boxed() }
